"""Equivalence check for refactoring 6: decode_coords, to_dataset and
to_datatree in ceos_alos2/xarray.py. dask is not needed: the chunked paths are
checked both for the error they give without dask and, with Dataset.chunk
replaced by a recorder, for the exact argument they hand to it.

Run: PYTHONPATH=/tmp/wt6/e42 python _eq/6/equiv.py   (or with pytest)
The EXPECTED table was recorded from the unchanged code (git HEAD).
"""
import contextlib
import copy

import fsspec
import numpy as np
import xarray as xr

from ceos_alos2 import array, xarray
from ceos_alos2.hierarchy import Group, Variable

CHUNK_CALLS = []


@contextlib.contextmanager
def recording_chunk():
    """replace Dataset.chunk by a recorder (dask is not available here)"""
    original = xr.Dataset.chunk

    def chunk(self, *args, **kwargs):
        CHUNK_CALLS.append((sorted(self.variables), args, kwargs))
        return self.assign_attrs(chunked_with=repr((args, kwargs)))

    CHUNK_CALLS.clear()
    xr.Dataset.chunk = chunk
    try:
        yield CHUNK_CALLS
    finally:
        xr.Dataset.chunk = original


def make_array(n_rows=4, n_cols=3, records_per_chunk=2):
    values = (np.arange(n_rows * n_cols).reshape(n_rows, n_cols) * 3 + 1).astype(">u2")
    content = b"\x07" * 5
    byte_ranges = []
    for row in values:
        content += b"\x09" * 2
        byte_ranges.append((len(content), len(content) + 2 * n_cols))
        content += row.tobytes()
    memfs = fsspec.filesystem("memory")
    memfs.pipe_file(f"/e42/trees/IMG-{n_rows}-{n_cols}", content)
    fs = fsspec.filesystem("dir", path="/e42/trees", fs=memfs)
    return array.Array(
        fs=fs,
        url=f"IMG-{n_rows}-{n_cols}",
        byte_ranges=byte_ranges,
        shape=(n_rows, n_cols),
        dtype="uint16",
        type_code="IU2",
        records_per_chunk=records_per_chunk,
    )


def describe_dataset(ds):
    def var_info(var):
        try:
            values = np.asarray(var.values)
        except Exception as e:  # noqa: BLE001
            values = e
        return {
            "dims": var.dims,
            "dtype": str(var.dtype),
            "attrs": dict(var.attrs),
            "encoding": dict(var.encoding),
            "data-type": type(var.variable._data).__name__,
            "values": values,
        }

    return {
        "type": type(ds).__name__,
        "sizes": dict(ds.sizes),
        "data_vars": {str(k): var_info(v) for k, v in ds.data_vars.items()},
        "coords": {str(k): var_info(v) for k, v in ds.coords.items()},
        "attrs": dict(ds.attrs),
        "encoding": dict(ds.encoding),
    }


def describe_tree(tree):
    return {
        "type": type(tree).__name__,
        "name": tree.name,
        "paths": [node.path for node in tree.subtree],
        "nodes": {node.path: describe_dataset(node.to_dataset(inherit=False)) for node in tree.subtree},
    }


def groups():
    c = Variable("x", np.array([1, 2, 3], dtype="int8"), {"a": 1})
    d = Variable(["x", "y"], np.arange(12).reshape(3, 4), {"b": "abc"})
    e = Variable(["y"], np.array([0.5, 1.5, 2.5, 3.5]), {})
    t = Variable("t", np.array(["2020-01-01", "2020-01-02"], dtype="datetime64[ns]"), {"axis": "T"})
    s = Variable([], np.array(7), {"scalar": True})

    def image():
        return Variable(["rows", "cols"], make_array(), {"units": "dn"})

    def g(data, attrs, path=None, url=None):
        return Group(path=path, url=url, data=data, attrs=attrs)

    return {
        "empty": g({}, {}),
        "attrs-only": g({}, {"a": 1, "nested": {"k": [1, 2]}}),
        "variables": g({"c": c, "d": d}, {}),
        "coords-list": g({"c": c, "d": d}, {"coordinates": ["d"]}),
        "coords-all": g({"c": c, "d": d, "e": e}, {"coordinates": ["d", "c", "e"], "title": "x"}),
        "coords-str": g({"c": c, "d": d}, {"coordinates": "d"}),
        "coords-tuple": g({"c": c, "d": d}, {"coordinates": ("c",)}),
        "coords-empty": g({"c": c}, {"coordinates": []}),
        "coords-none": g({"c": c}, {"coordinates": None}),
        "coords-missing": g({"c": c}, {"coordinates": ["zzz"]}),
        "coords-index": g({"x": c, "d": d}, {"coordinates": ["d"]}),
        "scalar": g({"s": s, "t": t}, {"coordinates": ["s"]}),
        "conflict": g({"c": c, "bad": Variable("x", np.arange(5), {})}, {}),
        "image": g({"data": image(), "c": c}, {"coordinates": ["c"], "mode": "HH"}),
        "nested": g({"c": c, "d": g({"e": d}, {})}, {}),
        "nested-coords": g(
            {
                "c": c,
                "sub": g({"e": d, "f": e}, {"coordinates": ["f"], "level": 1}),
                "other": g({"t": t}, {"coordinates": ["t"]}),
            },
            {"coordinates": ["c"], "level": 0},
        ),
        "deep": g(
            {
                "imagery": g(
                    {
                        "HH": g({"data": image()}, {"pol": "HH"}),
                        "HV": g({"data": image(), "c": c}, {"pol": "HV", "coordinates": ["c"]}),
                    },
                    {"kind": "imagery"},
                ),
                "metadata": g({"a": g({"b": g({"s": s}, {"depth": 3})}, {})}, {}),
                "top": e,
            },
            {"product": "e42"},
        ),
        "only-groups": g({"a": g({}, {}), "b": g({}, {"x": 1})}, {}),
        "named-root": g({"c": c, "sub": g({"e": e}, {})}, {}, path="/"),
        "relative-root": g({"c": c, "sub": g({"e": e}, {})}, {}, path="abc"),
        "absolute-root": g({"c": c, "sub": g({"e": e}, {})}, {}, path="/abc"),
        "nested-bad-coords": g({"c": c, "sub": g({"e": e}, {"coordinates": ["nope"]})}, {}),
        "both-bad-coords": g(
            {"c": c, "sub": g({"e": e}, {"coordinates": ["sub-missing"]})},
            {"coordinates": ["root-missing"]},
        ),
        "root-conflict-nested-bad": g(
            {
                "c": c,
                "bad": Variable("x", np.arange(5), {}),
                "sub": g({"e": e}, {"coordinates": ["sub-missing"]}),
            },
            {},
        ),
        "nested-conflict": g(
            {"c": c, "sub": g({"e": e, "bad": Variable("y", np.arange(2), {})}, {})}, {}
        ),
    }


CHUNKS = {
    "none": None,
    "empty": {},
    "x": {"x": 1},
    "xy": {"x": 1, "y": 2},
    "yx": {"y": 2, "x": -1},
    "unknown": {"q": 4},
    "mixed": {"rows": 2, "q": 4, "cols": -1, "x": "auto"},
    "int": -1,
    "str": "auto",
    "list": [("x", 1)],
    "tuple-keys": {("x",): 1},
}


def dataset_case(group, chunks, record):
    group = copy.deepcopy(group)
    attrs_before = copy.deepcopy(group.attrs)
    if record:
        with recording_chunk() as calls:
            try:
                result = describe_dataset(xarray.to_dataset(group, chunks=chunks))
            except Exception as e:  # noqa: BLE001
                result = e
            calls = list(calls)
    else:
        calls = None
        try:
            result = describe_dataset(xarray.to_dataset(group, chunks=chunks))
        except Exception as e:  # noqa: BLE001
            result = e
    return [result, repr(calls), group.attrs == attrs_before]


def tree_case(group, chunks, record):
    group = copy.deepcopy(group)
    attrs_before = copy.deepcopy(group.attrs)
    if record:
        with recording_chunk() as calls:
            try:
                result = describe_tree(xarray.to_datatree(group, chunks=chunks))
            except Exception as e:  # noqa: BLE001
                result = e
            calls = list(calls)
    else:
        calls = None
        try:
            result = describe_tree(xarray.to_datatree(group, chunks=chunks))
        except Exception as e:  # noqa: BLE001
            result = e
    return [result, repr(calls), group.attrs == attrs_before]


def decode(attrs, names=("c", "d")):
    ds = xr.Dataset(
        {name: ("x", np.arange(3) + i) for i, name in enumerate(names)}, attrs=attrs
    )
    result = xarray.decode_coords(ds)
    return [describe_dataset(result), dict(ds.attrs), sorted(ds.coords), result is ds]


def cases():
    out = []

    def add(name, func, *args, **kwargs):
        out.append((name, lambda: func(*args, **kwargs)))

    all_groups = groups()
    for gname, group in all_groups.items():
        for cname, chunks in CHUNKS.items():
            add(f"dataset|{gname}|{cname}", dataset_case, group, chunks, False)
            add(f"tree|{gname}|{cname}", tree_case, group, chunks, False)
            if chunks is not None:
                add(f"dataset-recorded|{gname}|{cname}", dataset_case, group, chunks, True)
                add(f"tree-recorded|{gname}|{cname}", tree_case, group, chunks, True)

    # default arguments / call styles
    flat = all_groups["coords-list"]
    add("dataset-default", lambda: describe_dataset(xarray.to_dataset(flat)))
    add("dataset-positional", lambda: describe_dataset(xarray.to_dataset(flat, None)))
    add("dataset-kw", lambda: describe_dataset(xarray.to_dataset(group=flat, chunks=None)))
    add("tree-default", lambda: describe_tree(xarray.to_datatree(all_groups["nested"])))
    add("tree-positional", lambda: describe_tree(xarray.to_datatree(all_groups["nested"], None)))
    add("tree-kw", lambda: describe_tree(xarray.to_datatree(group=all_groups["deep"], chunks=None)))
    add("dataset-not-a-group", xarray.to_dataset, {"a": 1})
    add("tree-not-a-group", xarray.to_datatree, None)
    add("tree-of-subgroup", lambda: describe_tree(xarray.to_datatree(all_groups["deep"]["imagery"])))
    add("dataset-of-subgroup", lambda: describe_dataset(
        xarray.to_dataset(all_groups["deep"]["imagery"]["HV"])))

    # decode_coords
    for name, attrs in {
        "none": {},
        "list": {"coordinates": ["d"], "keep": 1},
        "both": {"coordinates": ["c", "d"]},
        "str": {"coordinates": "c"},
        "empty": {"coordinates": []},
        "missing": {"coordinates": ["q"]},
        "none-value": {"coordinates": None},
        "int": {"coordinates": 3},
        "other-key": {"Coordinates": ["c"]},
    }.items():
        add(f"decode-{name}", decode, attrs)
    add("decode-kw", lambda: describe_dataset(
        xarray.decode_coords(ds=xr.Dataset({"a": ("x", [1, 2])}, attrs={"coordinates": ["a"]}))))
    add("decode-not-a-dataset", xarray.decode_coords, {"attrs": {}})

    return out


# recorded from the unchanged code
EXPECTED = {'dataset|empty|none': "list(dict{builtins.str:'type': builtins.str:'Dataset', "
                       "builtins.str:'sizes': dict{}, builtins.str:'data_vars': dict{}, "
                       "builtins.str:'coords': dict{}, builtins.str:'attrs': dict{}, "
                       "builtins.str:'encoding': dict{}}, builtins.str:'None', builtins.bool:True)",
 'tree|empty|none': "list(dict{builtins.str:'type': builtins.str:'DataTree', builtins.str:'name': "
                    "builtins.NoneType:None, builtins.str:'paths': list(builtins.str:'/'), "
                    "builtins.str:'nodes': dict{builtins.str:'/': dict{builtins.str:'type': "
                    "builtins.str:'Dataset', builtins.str:'sizes': dict{}, "
                    "builtins.str:'data_vars': dict{}, builtins.str:'coords': dict{}, "
                    "builtins.str:'attrs': dict{}, builtins.str:'encoding': dict{}}}}, "
                    "builtins.str:'None', builtins.bool:True)",
 'dataset|empty|empty': "list(raise builtins.ImportError: chunk manager 'dask' is not available. "
                        "Please make sure 'dask' is installed and importable., "
                        "builtins.str:'None', builtins.bool:True)",
 'tree|empty|empty': "list(raise builtins.ImportError: chunk manager 'dask' is not available. "
                     "Please make sure 'dask' is installed and importable., builtins.str:'None', "
                     'builtins.bool:True)',
 'dataset-recorded|empty|empty': "list(dict{builtins.str:'type': builtins.str:'Dataset', "
                                 "builtins.str:'sizes': dict{}, builtins.str:'data_vars': dict{}, "
                                 "builtins.str:'coords': dict{}, builtins.str:'attrs': "
                                 "dict{builtins.str:'chunked_with': builtins.str:'(({},), {})'}, "
                                 "builtins.str:'encoding': dict{}}, builtins.str:'[([], ({},), "
                                 "{})]', builtins.bool:True)",
 'tree-recorded|empty|empty': "list(dict{builtins.str:'type': builtins.str:'DataTree', "
                              "builtins.str:'name': builtins.NoneType:None, builtins.str:'paths': "
                              "list(builtins.str:'/'), builtins.str:'nodes': "
                              "dict{builtins.str:'/': dict{builtins.str:'type': "
                              "builtins.str:'Dataset', builtins.str:'sizes': dict{}, "
                              "builtins.str:'data_vars': dict{}, builtins.str:'coords': dict{}, "
                              "builtins.str:'attrs': dict{builtins.str:'chunked_with': "
                              "builtins.str:'(({},), {})'}, builtins.str:'encoding': dict{}}}}, "
                              "builtins.str:'[([], ({},), {}), ([], ({},), {})]', "
                              'builtins.bool:True)',
 'dataset|empty|x': "list(raise builtins.ImportError: chunk manager 'dask' is not available. "
                    "Please make sure 'dask' is installed and importable., builtins.str:'None', "
                    'builtins.bool:True)',
 'tree|empty|x': "list(raise builtins.ImportError: chunk manager 'dask' is not available. Please "
                 "make sure 'dask' is installed and importable., builtins.str:'None', "
                 'builtins.bool:True)',
 'dataset-recorded|empty|x': "list(dict{builtins.str:'type': builtins.str:'Dataset', "
                             "builtins.str:'sizes': dict{}, builtins.str:'data_vars': dict{}, "
                             "builtins.str:'coords': dict{}, builtins.str:'attrs': "
                             "dict{builtins.str:'chunked_with': builtins.str:'(({},), {})'}, "
                             "builtins.str:'encoding': dict{}}, builtins.str:'[([], ({},), {})]', "
                             'builtins.bool:True)',
 'tree-recorded|empty|x': "list(dict{builtins.str:'type': builtins.str:'DataTree', "
                          "builtins.str:'name': builtins.NoneType:None, builtins.str:'paths': "
                          "list(builtins.str:'/'), builtins.str:'nodes': dict{builtins.str:'/': "
                          "dict{builtins.str:'type': builtins.str:'Dataset', builtins.str:'sizes': "
                          "dict{}, builtins.str:'data_vars': dict{}, builtins.str:'coords': "
                          "dict{}, builtins.str:'attrs': dict{builtins.str:'chunked_with': "
                          "builtins.str:'(({},), {})'}, builtins.str:'encoding': dict{}}}}, "
                          "builtins.str:'[([], ({},), {}), ([], ({},), {})]', builtins.bool:True)",
 'dataset|empty|xy': "list(raise builtins.ImportError: chunk manager 'dask' is not available. "
                     "Please make sure 'dask' is installed and importable., builtins.str:'None', "
                     'builtins.bool:True)',
 'tree|empty|xy': "list(raise builtins.ImportError: chunk manager 'dask' is not available. Please "
                  "make sure 'dask' is installed and importable., builtins.str:'None', "
                  'builtins.bool:True)',
 'dataset-recorded|empty|xy': "list(dict{builtins.str:'type': builtins.str:'Dataset', "
                              "builtins.str:'sizes': dict{}, builtins.str:'data_vars': dict{}, "
                              "builtins.str:'coords': dict{}, builtins.str:'attrs': "
                              "dict{builtins.str:'chunked_with': builtins.str:'(({},), {})'}, "
                              "builtins.str:'encoding': dict{}}, builtins.str:'[([], ({},), {})]', "
                              'builtins.bool:True)',
 'tree-recorded|empty|xy': "list(dict{builtins.str:'type': builtins.str:'DataTree', "
                           "builtins.str:'name': builtins.NoneType:None, builtins.str:'paths': "
                           "list(builtins.str:'/'), builtins.str:'nodes': dict{builtins.str:'/': "
                           "dict{builtins.str:'type': builtins.str:'Dataset', "
                           "builtins.str:'sizes': dict{}, builtins.str:'data_vars': dict{}, "
                           "builtins.str:'coords': dict{}, builtins.str:'attrs': "
                           "dict{builtins.str:'chunked_with': builtins.str:'(({},), {})'}, "
                           "builtins.str:'encoding': dict{}}}}, builtins.str:'[([], ({},), {}), "
                           "([], ({},), {})]', builtins.bool:True)",
 'dataset|empty|yx': "list(raise builtins.ImportError: chunk manager 'dask' is not available. "
                     "Please make sure 'dask' is installed and importable., builtins.str:'None', "
                     'builtins.bool:True)',
 'tree|empty|yx': "list(raise builtins.ImportError: chunk manager 'dask' is not available. Please "
                  "make sure 'dask' is installed and importable., builtins.str:'None', "
                  'builtins.bool:True)',
 'dataset-recorded|empty|yx': "list(dict{builtins.str:'type': builtins.str:'Dataset', "
                              "builtins.str:'sizes': dict{}, builtins.str:'data_vars': dict{}, "
                              "builtins.str:'coords': dict{}, builtins.str:'attrs': "
                              "dict{builtins.str:'chunked_with': builtins.str:'(({},), {})'}, "
                              "builtins.str:'encoding': dict{}}, builtins.str:'[([], ({},), {})]', "
                              'builtins.bool:True)',
 'tree-recorded|empty|yx': "list(dict{builtins.str:'type': builtins.str:'DataTree', "
                           "builtins.str:'name': builtins.NoneType:None, builtins.str:'paths': "
                           "list(builtins.str:'/'), builtins.str:'nodes': dict{builtins.str:'/': "
                           "dict{builtins.str:'type': builtins.str:'Dataset', "
                           "builtins.str:'sizes': dict{}, builtins.str:'data_vars': dict{}, "
                           "builtins.str:'coords': dict{}, builtins.str:'attrs': "
                           "dict{builtins.str:'chunked_with': builtins.str:'(({},), {})'}, "
                           "builtins.str:'encoding': dict{}}}}, builtins.str:'[([], ({},), {}), "
                           "([], ({},), {})]', builtins.bool:True)",
 'dataset|empty|unknown': "list(raise builtins.ImportError: chunk manager 'dask' is not available. "
                          "Please make sure 'dask' is installed and importable., "
                          "builtins.str:'None', builtins.bool:True)",
 'tree|empty|unknown': "list(raise builtins.ImportError: chunk manager 'dask' is not available. "
                       "Please make sure 'dask' is installed and importable., builtins.str:'None', "
                       'builtins.bool:True)',
 'dataset-recorded|empty|unknown': "list(dict{builtins.str:'type': builtins.str:'Dataset', "
                                   "builtins.str:'sizes': dict{}, builtins.str:'data_vars': "
                                   "dict{}, builtins.str:'coords': dict{}, builtins.str:'attrs': "
                                   "dict{builtins.str:'chunked_with': builtins.str:'(({},), {})'}, "
                                   "builtins.str:'encoding': dict{}}, builtins.str:'[([], ({},), "
                                   "{})]', builtins.bool:True)",
 'tree-recorded|empty|unknown': "list(dict{builtins.str:'type': builtins.str:'DataTree', "
                                "builtins.str:'name': builtins.NoneType:None, "
                                "builtins.str:'paths': list(builtins.str:'/'), "
                                "builtins.str:'nodes': dict{builtins.str:'/': "
                                "dict{builtins.str:'type': builtins.str:'Dataset', "
                                "builtins.str:'sizes': dict{}, builtins.str:'data_vars': dict{}, "
                                "builtins.str:'coords': dict{}, builtins.str:'attrs': "
                                "dict{builtins.str:'chunked_with': builtins.str:'(({},), {})'}, "
                                "builtins.str:'encoding': dict{}}}}, builtins.str:'[([], ({},), "
                                "{}), ([], ({},), {})]', builtins.bool:True)",
 'dataset|empty|mixed': "list(raise builtins.ImportError: chunk manager 'dask' is not available. "
                        "Please make sure 'dask' is installed and importable., "
                        "builtins.str:'None', builtins.bool:True)",
 'tree|empty|mixed': "list(raise builtins.ImportError: chunk manager 'dask' is not available. "
                     "Please make sure 'dask' is installed and importable., builtins.str:'None', "
                     'builtins.bool:True)',
 'dataset-recorded|empty|mixed': "list(dict{builtins.str:'type': builtins.str:'Dataset', "
                                 "builtins.str:'sizes': dict{}, builtins.str:'data_vars': dict{}, "
                                 "builtins.str:'coords': dict{}, builtins.str:'attrs': "
                                 "dict{builtins.str:'chunked_with': builtins.str:'(({},), {})'}, "
                                 "builtins.str:'encoding': dict{}}, builtins.str:'[([], ({},), "
                                 "{})]', builtins.bool:True)",
 'tree-recorded|empty|mixed': "list(dict{builtins.str:'type': builtins.str:'DataTree', "
                              "builtins.str:'name': builtins.NoneType:None, builtins.str:'paths': "
                              "list(builtins.str:'/'), builtins.str:'nodes': "
                              "dict{builtins.str:'/': dict{builtins.str:'type': "
                              "builtins.str:'Dataset', builtins.str:'sizes': dict{}, "
                              "builtins.str:'data_vars': dict{}, builtins.str:'coords': dict{}, "
                              "builtins.str:'attrs': dict{builtins.str:'chunked_with': "
                              "builtins.str:'(({},), {})'}, builtins.str:'encoding': dict{}}}}, "
                              "builtins.str:'[([], ({},), {}), ([], ({},), {})]', "
                              'builtins.bool:True)',
 'dataset|empty|int': "list(raise builtins.AttributeError: 'int' object has no attribute 'items', "
                      "builtins.str:'None', builtins.bool:True)",
 'tree|empty|int': "list(raise builtins.AttributeError: 'int' object has no attribute 'items', "
                   "builtins.str:'None', builtins.bool:True)",
 'dataset-recorded|empty|int': "list(raise builtins.AttributeError: 'int' object has no attribute "
                               "'items', builtins.str:'[]', builtins.bool:True)",
 'tree-recorded|empty|int': "list(raise builtins.AttributeError: 'int' object has no attribute "
                            "'items', builtins.str:'[]', builtins.bool:True)",
 'dataset|empty|str': "list(raise builtins.AttributeError: 'str' object has no attribute 'items', "
                      "builtins.str:'None', builtins.bool:True)",
 'tree|empty|str': "list(raise builtins.AttributeError: 'str' object has no attribute 'items', "
                   "builtins.str:'None', builtins.bool:True)",
 'dataset-recorded|empty|str': "list(raise builtins.AttributeError: 'str' object has no attribute "
                               "'items', builtins.str:'[]', builtins.bool:True)",
 'tree-recorded|empty|str': "list(raise builtins.AttributeError: 'str' object has no attribute "
                            "'items', builtins.str:'[]', builtins.bool:True)",
 'dataset|empty|list': "list(raise builtins.AttributeError: 'list' object has no attribute "
                       "'items', builtins.str:'None', builtins.bool:True)",
 'tree|empty|list': "list(raise builtins.AttributeError: 'list' object has no attribute 'items', "
                    "builtins.str:'None', builtins.bool:True)",
 'dataset-recorded|empty|list': "list(raise builtins.AttributeError: 'list' object has no "
                                "attribute 'items', builtins.str:'[]', builtins.bool:True)",
 'tree-recorded|empty|list': "list(raise builtins.AttributeError: 'list' object has no attribute "
                             "'items', builtins.str:'[]', builtins.bool:True)",
 'dataset|empty|tuple-keys': "list(raise builtins.ImportError: chunk manager 'dask' is not "
                             "available. Please make sure 'dask' is installed and importable., "
                             "builtins.str:'None', builtins.bool:True)",
 'tree|empty|tuple-keys': "list(raise builtins.ImportError: chunk manager 'dask' is not available. "
                          "Please make sure 'dask' is installed and importable., "
                          "builtins.str:'None', builtins.bool:True)",
 'dataset-recorded|empty|tuple-keys': "list(dict{builtins.str:'type': builtins.str:'Dataset', "
                                      "builtins.str:'sizes': dict{}, builtins.str:'data_vars': "
                                      "dict{}, builtins.str:'coords': dict{}, "
                                      "builtins.str:'attrs': dict{builtins.str:'chunked_with': "
                                      "builtins.str:'(({},), {})'}, builtins.str:'encoding': "
                                      "dict{}}, builtins.str:'[([], ({},), {})]', "
                                      'builtins.bool:True)',
 'tree-recorded|empty|tuple-keys': "list(dict{builtins.str:'type': builtins.str:'DataTree', "
                                   "builtins.str:'name': builtins.NoneType:None, "
                                   "builtins.str:'paths': list(builtins.str:'/'), "
                                   "builtins.str:'nodes': dict{builtins.str:'/': "
                                   "dict{builtins.str:'type': builtins.str:'Dataset', "
                                   "builtins.str:'sizes': dict{}, builtins.str:'data_vars': "
                                   "dict{}, builtins.str:'coords': dict{}, builtins.str:'attrs': "
                                   "dict{builtins.str:'chunked_with': builtins.str:'(({},), {})'}, "
                                   "builtins.str:'encoding': dict{}}}}, builtins.str:'[([], ({},), "
                                   "{}), ([], ({},), {})]', builtins.bool:True)",
 'dataset|attrs-only|none': "list(dict{builtins.str:'type': builtins.str:'Dataset', "
                            "builtins.str:'sizes': dict{}, builtins.str:'data_vars': dict{}, "
                            "builtins.str:'coords': dict{}, builtins.str:'attrs': "
                            "dict{builtins.str:'a': builtins.int:1, builtins.str:'nested': "
                            "dict{builtins.str:'k': list(builtins.int:1, builtins.int:2)}}, "
                            "builtins.str:'encoding': dict{}}, builtins.str:'None', "
                            'builtins.bool:True)',
 'tree|attrs-only|none': "list(dict{builtins.str:'type': builtins.str:'DataTree', "
                         "builtins.str:'name': builtins.NoneType:None, builtins.str:'paths': "
                         "list(builtins.str:'/'), builtins.str:'nodes': dict{builtins.str:'/': "
                         "dict{builtins.str:'type': builtins.str:'Dataset', builtins.str:'sizes': "
                         "dict{}, builtins.str:'data_vars': dict{}, builtins.str:'coords': dict{}, "
                         "builtins.str:'attrs': dict{builtins.str:'a': builtins.int:1, "
                         "builtins.str:'nested': dict{builtins.str:'k': list(builtins.int:1, "
                         "builtins.int:2)}}, builtins.str:'encoding': dict{}}}}, "
                         "builtins.str:'None', builtins.bool:True)",
 'dataset|attrs-only|empty': "list(raise builtins.ImportError: chunk manager 'dask' is not "
                             "available. Please make sure 'dask' is installed and importable., "
                             "builtins.str:'None', builtins.bool:True)",
 'tree|attrs-only|empty': "list(raise builtins.ImportError: chunk manager 'dask' is not available. "
                          "Please make sure 'dask' is installed and importable., "
                          "builtins.str:'None', builtins.bool:True)",
 'dataset-recorded|attrs-only|empty': "list(dict{builtins.str:'type': builtins.str:'Dataset', "
                                      "builtins.str:'sizes': dict{}, builtins.str:'data_vars': "
                                      "dict{}, builtins.str:'coords': dict{}, "
                                      "builtins.str:'attrs': dict{builtins.str:'a': "
                                      "builtins.int:1, builtins.str:'nested': "
                                      "dict{builtins.str:'k': list(builtins.int:1, "
                                      "builtins.int:2)}, builtins.str:'chunked_with': "
                                      "builtins.str:'(({},), {})'}, builtins.str:'encoding': "
                                      "dict{}}, builtins.str:'[([], ({},), {})]', "
                                      'builtins.bool:True)',
 'tree-recorded|attrs-only|empty': "list(dict{builtins.str:'type': builtins.str:'DataTree', "
                                   "builtins.str:'name': builtins.NoneType:None, "
                                   "builtins.str:'paths': list(builtins.str:'/'), "
                                   "builtins.str:'nodes': dict{builtins.str:'/': "
                                   "dict{builtins.str:'type': builtins.str:'Dataset', "
                                   "builtins.str:'sizes': dict{}, builtins.str:'data_vars': "
                                   "dict{}, builtins.str:'coords': dict{}, builtins.str:'attrs': "
                                   "dict{builtins.str:'a': builtins.int:1, builtins.str:'nested': "
                                   "dict{builtins.str:'k': list(builtins.int:1, builtins.int:2)}, "
                                   "builtins.str:'chunked_with': builtins.str:'(({},), {})'}, "
                                   "builtins.str:'encoding': dict{}}}}, builtins.str:'[([], ({},), "
                                   "{}), ([], ({},), {})]', builtins.bool:True)",
 'dataset|attrs-only|x': "list(raise builtins.ImportError: chunk manager 'dask' is not available. "
                         "Please make sure 'dask' is installed and importable., "
                         "builtins.str:'None', builtins.bool:True)",
 'tree|attrs-only|x': "list(raise builtins.ImportError: chunk manager 'dask' is not available. "
                      "Please make sure 'dask' is installed and importable., builtins.str:'None', "
                      'builtins.bool:True)',
 'dataset-recorded|attrs-only|x': "list(dict{builtins.str:'type': builtins.str:'Dataset', "
                                  "builtins.str:'sizes': dict{}, builtins.str:'data_vars': dict{}, "
                                  "builtins.str:'coords': dict{}, builtins.str:'attrs': "
                                  "dict{builtins.str:'a': builtins.int:1, builtins.str:'nested': "
                                  "dict{builtins.str:'k': list(builtins.int:1, builtins.int:2)}, "
                                  "builtins.str:'chunked_with': builtins.str:'(({},), {})'}, "
                                  "builtins.str:'encoding': dict{}}, builtins.str:'[([], ({},), "
                                  "{})]', builtins.bool:True)",
 'tree-recorded|attrs-only|x': "list(dict{builtins.str:'type': builtins.str:'DataTree', "
                               "builtins.str:'name': builtins.NoneType:None, builtins.str:'paths': "
                               "list(builtins.str:'/'), builtins.str:'nodes': "
                               "dict{builtins.str:'/': dict{builtins.str:'type': "
                               "builtins.str:'Dataset', builtins.str:'sizes': dict{}, "
                               "builtins.str:'data_vars': dict{}, builtins.str:'coords': dict{}, "
                               "builtins.str:'attrs': dict{builtins.str:'a': builtins.int:1, "
                               "builtins.str:'nested': dict{builtins.str:'k': list(builtins.int:1, "
                               "builtins.int:2)}, builtins.str:'chunked_with': "
                               "builtins.str:'(({},), {})'}, builtins.str:'encoding': dict{}}}}, "
                               "builtins.str:'[([], ({},), {}), ([], ({},), {})]', "
                               'builtins.bool:True)',
 'dataset|attrs-only|xy': "list(raise builtins.ImportError: chunk manager 'dask' is not available. "
                          "Please make sure 'dask' is installed and importable., "
                          "builtins.str:'None', builtins.bool:True)",
 'tree|attrs-only|xy': "list(raise builtins.ImportError: chunk manager 'dask' is not available. "
                       "Please make sure 'dask' is installed and importable., builtins.str:'None', "
                       'builtins.bool:True)',
 'dataset-recorded|attrs-only|xy': "list(dict{builtins.str:'type': builtins.str:'Dataset', "
                                   "builtins.str:'sizes': dict{}, builtins.str:'data_vars': "
                                   "dict{}, builtins.str:'coords': dict{}, builtins.str:'attrs': "
                                   "dict{builtins.str:'a': builtins.int:1, builtins.str:'nested': "
                                   "dict{builtins.str:'k': list(builtins.int:1, builtins.int:2)}, "
                                   "builtins.str:'chunked_with': builtins.str:'(({},), {})'}, "
                                   "builtins.str:'encoding': dict{}}, builtins.str:'[([], ({},), "
                                   "{})]', builtins.bool:True)",
 'tree-recorded|attrs-only|xy': "list(dict{builtins.str:'type': builtins.str:'DataTree', "
                                "builtins.str:'name': builtins.NoneType:None, "
                                "builtins.str:'paths': list(builtins.str:'/'), "
                                "builtins.str:'nodes': dict{builtins.str:'/': "
                                "dict{builtins.str:'type': builtins.str:'Dataset', "
                                "builtins.str:'sizes': dict{}, builtins.str:'data_vars': dict{}, "
                                "builtins.str:'coords': dict{}, builtins.str:'attrs': "
                                "dict{builtins.str:'a': builtins.int:1, builtins.str:'nested': "
                                "dict{builtins.str:'k': list(builtins.int:1, builtins.int:2)}, "
                                "builtins.str:'chunked_with': builtins.str:'(({},), {})'}, "
                                "builtins.str:'encoding': dict{}}}}, builtins.str:'[([], ({},), "
                                "{}), ([], ({},), {})]', builtins.bool:True)",
 'dataset|attrs-only|yx': "list(raise builtins.ImportError: chunk manager 'dask' is not available. "
                          "Please make sure 'dask' is installed and importable., "
                          "builtins.str:'None', builtins.bool:True)",
 'tree|attrs-only|yx': "list(raise builtins.ImportError: chunk manager 'dask' is not available. "
                       "Please make sure 'dask' is installed and importable., builtins.str:'None', "
                       'builtins.bool:True)',
 'dataset-recorded|attrs-only|yx': "list(dict{builtins.str:'type': builtins.str:'Dataset', "
                                   "builtins.str:'sizes': dict{}, builtins.str:'data_vars': "
                                   "dict{}, builtins.str:'coords': dict{}, builtins.str:'attrs': "
                                   "dict{builtins.str:'a': builtins.int:1, builtins.str:'nested': "
                                   "dict{builtins.str:'k': list(builtins.int:1, builtins.int:2)}, "
                                   "builtins.str:'chunked_with': builtins.str:'(({},), {})'}, "
                                   "builtins.str:'encoding': dict{}}, builtins.str:'[([], ({},), "
                                   "{})]', builtins.bool:True)",
 'tree-recorded|attrs-only|yx': "list(dict{builtins.str:'type': builtins.str:'DataTree', "
                                "builtins.str:'name': builtins.NoneType:None, "
                                "builtins.str:'paths': list(builtins.str:'/'), "
                                "builtins.str:'nodes': dict{builtins.str:'/': "
                                "dict{builtins.str:'type': builtins.str:'Dataset', "
                                "builtins.str:'sizes': dict{}, builtins.str:'data_vars': dict{}, "
                                "builtins.str:'coords': dict{}, builtins.str:'attrs': "
                                "dict{builtins.str:'a': builtins.int:1, builtins.str:'nested': "
                                "dict{builtins.str:'k': list(builtins.int:1, builtins.int:2)}, "
                                "builtins.str:'chunked_with': builtins.str:'(({},), {})'}, "
                                "builtins.str:'encoding': dict{}}}}, builtins.str:'[([], ({},), "
                                "{}), ([], ({},), {})]', builtins.bool:True)",
 'dataset|attrs-only|unknown': "list(raise builtins.ImportError: chunk manager 'dask' is not "
                               "available. Please make sure 'dask' is installed and importable., "
                               "builtins.str:'None', builtins.bool:True)",
 'tree|attrs-only|unknown': "list(raise builtins.ImportError: chunk manager 'dask' is not "
                            "available. Please make sure 'dask' is installed and importable., "
                            "builtins.str:'None', builtins.bool:True)",
 'dataset-recorded|attrs-only|unknown': "list(dict{builtins.str:'type': builtins.str:'Dataset', "
                                        "builtins.str:'sizes': dict{}, builtins.str:'data_vars': "
                                        "dict{}, builtins.str:'coords': dict{}, "
                                        "builtins.str:'attrs': dict{builtins.str:'a': "
                                        "builtins.int:1, builtins.str:'nested': "
                                        "dict{builtins.str:'k': list(builtins.int:1, "
                                        "builtins.int:2)}, builtins.str:'chunked_with': "
                                        "builtins.str:'(({},), {})'}, builtins.str:'encoding': "
                                        "dict{}}, builtins.str:'[([], ({},), {})]', "
                                        'builtins.bool:True)',
 'tree-recorded|attrs-only|unknown': "list(dict{builtins.str:'type': builtins.str:'DataTree', "
                                     "builtins.str:'name': builtins.NoneType:None, "
                                     "builtins.str:'paths': list(builtins.str:'/'), "
                                     "builtins.str:'nodes': dict{builtins.str:'/': "
                                     "dict{builtins.str:'type': builtins.str:'Dataset', "
                                     "builtins.str:'sizes': dict{}, builtins.str:'data_vars': "
                                     "dict{}, builtins.str:'coords': dict{}, builtins.str:'attrs': "
                                     "dict{builtins.str:'a': builtins.int:1, "
                                     "builtins.str:'nested': dict{builtins.str:'k': "
                                     'list(builtins.int:1, builtins.int:2)}, '
                                     "builtins.str:'chunked_with': builtins.str:'(({},), {})'}, "
                                     "builtins.str:'encoding': dict{}}}}, builtins.str:'[([], "
                                     "({},), {}), ([], ({},), {})]', builtins.bool:True)",
 'dataset|attrs-only|mixed': "list(raise builtins.ImportError: chunk manager 'dask' is not "
                             "available. Please make sure 'dask' is installed and importable., "
                             "builtins.str:'None', builtins.bool:True)",
 'tree|attrs-only|mixed': "list(raise builtins.ImportError: chunk manager 'dask' is not available. "
                          "Please make sure 'dask' is installed and importable., "
                          "builtins.str:'None', builtins.bool:True)",
 'dataset-recorded|attrs-only|mixed': "list(dict{builtins.str:'type': builtins.str:'Dataset', "
                                      "builtins.str:'sizes': dict{}, builtins.str:'data_vars': "
                                      "dict{}, builtins.str:'coords': dict{}, "
                                      "builtins.str:'attrs': dict{builtins.str:'a': "
                                      "builtins.int:1, builtins.str:'nested': "
                                      "dict{builtins.str:'k': list(builtins.int:1, "
                                      "builtins.int:2)}, builtins.str:'chunked_with': "
                                      "builtins.str:'(({},), {})'}, builtins.str:'encoding': "
                                      "dict{}}, builtins.str:'[([], ({},), {})]', "
                                      'builtins.bool:True)',
 'tree-recorded|attrs-only|mixed': "list(dict{builtins.str:'type': builtins.str:'DataTree', "
                                   "builtins.str:'name': builtins.NoneType:None, "
                                   "builtins.str:'paths': list(builtins.str:'/'), "
                                   "builtins.str:'nodes': dict{builtins.str:'/': "
                                   "dict{builtins.str:'type': builtins.str:'Dataset', "
                                   "builtins.str:'sizes': dict{}, builtins.str:'data_vars': "
                                   "dict{}, builtins.str:'coords': dict{}, builtins.str:'attrs': "
                                   "dict{builtins.str:'a': builtins.int:1, builtins.str:'nested': "
                                   "dict{builtins.str:'k': list(builtins.int:1, builtins.int:2)}, "
                                   "builtins.str:'chunked_with': builtins.str:'(({},), {})'}, "
                                   "builtins.str:'encoding': dict{}}}}, builtins.str:'[([], ({},), "
                                   "{}), ([], ({},), {})]', builtins.bool:True)",
 'dataset|attrs-only|int': "list(raise builtins.AttributeError: 'int' object has no attribute "
                           "'items', builtins.str:'None', builtins.bool:True)",
 'tree|attrs-only|int': "list(raise builtins.AttributeError: 'int' object has no attribute "
                        "'items', builtins.str:'None', builtins.bool:True)",
 'dataset-recorded|attrs-only|int': "list(raise builtins.AttributeError: 'int' object has no "
                                    "attribute 'items', builtins.str:'[]', builtins.bool:True)",
 'tree-recorded|attrs-only|int': "list(raise builtins.AttributeError: 'int' object has no "
                                 "attribute 'items', builtins.str:'[]', builtins.bool:True)",
 'dataset|attrs-only|str': "list(raise builtins.AttributeError: 'str' object has no attribute "
                           "'items', builtins.str:'None', builtins.bool:True)",
 'tree|attrs-only|str': "list(raise builtins.AttributeError: 'str' object has no attribute "
                        "'items', builtins.str:'None', builtins.bool:True)",
 'dataset-recorded|attrs-only|str': "list(raise builtins.AttributeError: 'str' object has no "
                                    "attribute 'items', builtins.str:'[]', builtins.bool:True)",
 'tree-recorded|attrs-only|str': "list(raise builtins.AttributeError: 'str' object has no "
                                 "attribute 'items', builtins.str:'[]', builtins.bool:True)",
 'dataset|attrs-only|list': "list(raise builtins.AttributeError: 'list' object has no attribute "
                            "'items', builtins.str:'None', builtins.bool:True)",
 'tree|attrs-only|list': "list(raise builtins.AttributeError: 'list' object has no attribute "
                         "'items', builtins.str:'None', builtins.bool:True)",
 'dataset-recorded|attrs-only|list': "list(raise builtins.AttributeError: 'list' object has no "
                                     "attribute 'items', builtins.str:'[]', builtins.bool:True)",
 'tree-recorded|attrs-only|list': "list(raise builtins.AttributeError: 'list' object has no "
                                  "attribute 'items', builtins.str:'[]', builtins.bool:True)",
 'dataset|attrs-only|tuple-keys': "list(raise builtins.ImportError: chunk manager 'dask' is not "
                                  "available. Please make sure 'dask' is installed and "
                                  "importable., builtins.str:'None', builtins.bool:True)",
 'tree|attrs-only|tuple-keys': "list(raise builtins.ImportError: chunk manager 'dask' is not "
                               "available. Please make sure 'dask' is installed and importable., "
                               "builtins.str:'None', builtins.bool:True)",
 'dataset-recorded|attrs-only|tuple-keys': "list(dict{builtins.str:'type': builtins.str:'Dataset', "
                                           "builtins.str:'sizes': dict{}, "
                                           "builtins.str:'data_vars': dict{}, "
                                           "builtins.str:'coords': dict{}, builtins.str:'attrs': "
                                           "dict{builtins.str:'a': builtins.int:1, "
                                           "builtins.str:'nested': dict{builtins.str:'k': "
                                           'list(builtins.int:1, builtins.int:2)}, '
                                           "builtins.str:'chunked_with': builtins.str:'(({},), "
                                           "{})'}, builtins.str:'encoding': dict{}}, "
                                           "builtins.str:'[([], ({},), {})]', builtins.bool:True)",
 'tree-recorded|attrs-only|tuple-keys': "list(dict{builtins.str:'type': builtins.str:'DataTree', "
                                        "builtins.str:'name': builtins.NoneType:None, "
                                        "builtins.str:'paths': list(builtins.str:'/'), "
                                        "builtins.str:'nodes': dict{builtins.str:'/': "
                                        "dict{builtins.str:'type': builtins.str:'Dataset', "
                                        "builtins.str:'sizes': dict{}, builtins.str:'data_vars': "
                                        "dict{}, builtins.str:'coords': dict{}, "
                                        "builtins.str:'attrs': dict{builtins.str:'a': "
                                        "builtins.int:1, builtins.str:'nested': "
                                        "dict{builtins.str:'k': list(builtins.int:1, "
                                        "builtins.int:2)}, builtins.str:'chunked_with': "
                                        "builtins.str:'(({},), {})'}, builtins.str:'encoding': "
                                        "dict{}}}}, builtins.str:'[([], ({},), {}), ([], ({},), "
                                        "{})]', builtins.bool:True)",
 'dataset|variables|none': "list(dict{builtins.str:'type': builtins.str:'Dataset', "
                           "builtins.str:'sizes': dict{builtins.str:'x': builtins.int:3, "
                           "builtins.str:'y': builtins.int:4}, builtins.str:'data_vars': "
                           "dict{builtins.str:'c': dict{builtins.str:'dims': "
                           "tuple(builtins.str:'x'), builtins.str:'dtype': builtins.str:'int8', "
                           "builtins.str:'attrs': dict{builtins.str:'a': builtins.int:1}, "
                           "builtins.str:'encoding': dict{}, builtins.str:'data-type': "
                           "builtins.str:'ndarray', builtins.str:'values': "
                           "ndarray[|i1|(3,)|010203]}, builtins.str:'d': dict{builtins.str:'dims': "
                           "tuple(builtins.str:'x', builtins.str:'y'), builtins.str:'dtype': "
                           "builtins.str:'int64', builtins.str:'attrs': dict{builtins.str:'b': "
                           "builtins.str:'abc'}, builtins.str:'encoding': dict{}, "
                           "builtins.str:'data-type': builtins.str:'ndarray', "
                           "builtins.str:'values': ndarray[<i8|(3, "
                           '4)|00000000000000000100000000000000020000000000000003000000000000000400000000000000050000000000000006000000000000000700000000000000080000000000000009000000000000000a000000000000000b00000000000000]}}, '
                           "builtins.str:'coords': dict{}, builtins.str:'attrs': dict{}, "
                           "builtins.str:'encoding': dict{}}, builtins.str:'None', "
                           'builtins.bool:True)',
 'tree|variables|none': "list(dict{builtins.str:'type': builtins.str:'DataTree', "
                        "builtins.str:'name': builtins.NoneType:None, builtins.str:'paths': "
                        "list(builtins.str:'/'), builtins.str:'nodes': dict{builtins.str:'/': "
                        "dict{builtins.str:'type': builtins.str:'Dataset', builtins.str:'sizes': "
                        "dict{builtins.str:'x': builtins.int:3, builtins.str:'y': builtins.int:4}, "
                        "builtins.str:'data_vars': dict{builtins.str:'c': "
                        "dict{builtins.str:'dims': tuple(builtins.str:'x'), builtins.str:'dtype': "
                        "builtins.str:'int8', builtins.str:'attrs': dict{builtins.str:'a': "
                        "builtins.int:1}, builtins.str:'encoding': dict{}, "
                        "builtins.str:'data-type': builtins.str:'ndarray', builtins.str:'values': "
                        "ndarray[|i1|(3,)|010203]}, builtins.str:'d': dict{builtins.str:'dims': "
                        "tuple(builtins.str:'x', builtins.str:'y'), builtins.str:'dtype': "
                        "builtins.str:'int64', builtins.str:'attrs': dict{builtins.str:'b': "
                        "builtins.str:'abc'}, builtins.str:'encoding': dict{}, "
                        "builtins.str:'data-type': builtins.str:'ndarray', builtins.str:'values': "
                        'ndarray[<i8|(3, '
                        '4)|00000000000000000100000000000000020000000000000003000000000000000400000000000000050000000000000006000000000000000700000000000000080000000000000009000000000000000a000000000000000b00000000000000]}}, '
                        "builtins.str:'coords': dict{}, builtins.str:'attrs': dict{}, "
                        "builtins.str:'encoding': dict{}}}}, builtins.str:'None', "
                        'builtins.bool:True)',
 'dataset|variables|empty': "list(raise builtins.ImportError: chunk manager 'dask' is not "
                            "available. Please make sure 'dask' is installed and importable., "
                            "builtins.str:'None', builtins.bool:True)",
 'tree|variables|empty': "list(raise builtins.ImportError: chunk manager 'dask' is not available. "
                         "Please make sure 'dask' is installed and importable., "
                         "builtins.str:'None', builtins.bool:True)",
 'dataset-recorded|variables|empty': "list(dict{builtins.str:'type': builtins.str:'Dataset', "
                                     "builtins.str:'sizes': dict{builtins.str:'x': builtins.int:3, "
                                     "builtins.str:'y': builtins.int:4}, builtins.str:'data_vars': "
                                     "dict{builtins.str:'c': dict{builtins.str:'dims': "
                                     "tuple(builtins.str:'x'), builtins.str:'dtype': "
                                     "builtins.str:'int8', builtins.str:'attrs': "
                                     "dict{builtins.str:'a': builtins.int:1}, "
                                     "builtins.str:'encoding': dict{}, builtins.str:'data-type': "
                                     "builtins.str:'ndarray', builtins.str:'values': "
                                     "ndarray[|i1|(3,)|010203]}, builtins.str:'d': "
                                     "dict{builtins.str:'dims': tuple(builtins.str:'x', "
                                     "builtins.str:'y'), builtins.str:'dtype': "
                                     "builtins.str:'int64', builtins.str:'attrs': "
                                     "dict{builtins.str:'b': builtins.str:'abc'}, "
                                     "builtins.str:'encoding': dict{}, builtins.str:'data-type': "
                                     "builtins.str:'ndarray', builtins.str:'values': "
                                     'ndarray[<i8|(3, '
                                     '4)|00000000000000000100000000000000020000000000000003000000000000000400000000000000050000000000000006000000000000000700000000000000080000000000000009000000000000000a000000000000000b00000000000000]}}, '
                                     "builtins.str:'coords': dict{}, builtins.str:'attrs': "
                                     "dict{builtins.str:'chunked_with': builtins.str:'(({},), "
                                     "{})'}, builtins.str:'encoding': dict{}}, "
                                     'builtins.str:"[([\'c\', \'d\'], ({},), {})]", '
                                     'builtins.bool:True)',
 'tree-recorded|variables|empty': "list(dict{builtins.str:'type': builtins.str:'DataTree', "
                                  "builtins.str:'name': builtins.NoneType:None, "
                                  "builtins.str:'paths': list(builtins.str:'/'), "
                                  "builtins.str:'nodes': dict{builtins.str:'/': "
                                  "dict{builtins.str:'type': builtins.str:'Dataset', "
                                  "builtins.str:'sizes': dict{builtins.str:'x': builtins.int:3, "
                                  "builtins.str:'y': builtins.int:4}, builtins.str:'data_vars': "
                                  "dict{builtins.str:'c': dict{builtins.str:'dims': "
                                  "tuple(builtins.str:'x'), builtins.str:'dtype': "
                                  "builtins.str:'int8', builtins.str:'attrs': "
                                  "dict{builtins.str:'a': builtins.int:1}, "
                                  "builtins.str:'encoding': dict{}, builtins.str:'data-type': "
                                  "builtins.str:'ndarray', builtins.str:'values': "
                                  "ndarray[|i1|(3,)|010203]}, builtins.str:'d': "
                                  "dict{builtins.str:'dims': tuple(builtins.str:'x', "
                                  "builtins.str:'y'), builtins.str:'dtype': builtins.str:'int64', "
                                  "builtins.str:'attrs': dict{builtins.str:'b': "
                                  "builtins.str:'abc'}, builtins.str:'encoding': dict{}, "
                                  "builtins.str:'data-type': builtins.str:'ndarray', "
                                  "builtins.str:'values': ndarray[<i8|(3, "
                                  '4)|00000000000000000100000000000000020000000000000003000000000000000400000000000000050000000000000006000000000000000700000000000000080000000000000009000000000000000a000000000000000b00000000000000]}}, '
                                  "builtins.str:'coords': dict{}, builtins.str:'attrs': "
                                  "dict{builtins.str:'chunked_with': builtins.str:'(({},), {})'}, "
                                  'builtins.str:\'encoding\': dict{}}}}, builtins.str:"[([\'c\', '
                                  '\'d\'], ({},), {}), ([\'c\', \'d\'], ({},), {})]", '
                                  'builtins.bool:True)',
 'dataset|variables|x': "list(raise builtins.ImportError: chunk manager 'dask' is not available. "
                        "Please make sure 'dask' is installed and importable., "
                        "builtins.str:'None', builtins.bool:True)",
 'tree|variables|x': "list(raise builtins.ImportError: chunk manager 'dask' is not available. "
                     "Please make sure 'dask' is installed and importable., builtins.str:'None', "
                     'builtins.bool:True)',
 'dataset-recorded|variables|x': "list(dict{builtins.str:'type': builtins.str:'Dataset', "
                                 "builtins.str:'sizes': dict{builtins.str:'x': builtins.int:3, "
                                 "builtins.str:'y': builtins.int:4}, builtins.str:'data_vars': "
                                 "dict{builtins.str:'c': dict{builtins.str:'dims': "
                                 "tuple(builtins.str:'x'), builtins.str:'dtype': "
                                 "builtins.str:'int8', builtins.str:'attrs': "
                                 "dict{builtins.str:'a': builtins.int:1}, builtins.str:'encoding': "
                                 "dict{}, builtins.str:'data-type': builtins.str:'ndarray', "
                                 "builtins.str:'values': ndarray[|i1|(3,)|010203]}, "
                                 "builtins.str:'d': dict{builtins.str:'dims': "
                                 "tuple(builtins.str:'x', builtins.str:'y'), builtins.str:'dtype': "
                                 "builtins.str:'int64', builtins.str:'attrs': "
                                 "dict{builtins.str:'b': builtins.str:'abc'}, "
                                 "builtins.str:'encoding': dict{}, builtins.str:'data-type': "
                                 "builtins.str:'ndarray', builtins.str:'values': ndarray[<i8|(3, "
                                 '4)|00000000000000000100000000000000020000000000000003000000000000000400000000000000050000000000000006000000000000000700000000000000080000000000000009000000000000000a000000000000000b00000000000000]}}, '
                                 "builtins.str:'coords': dict{}, builtins.str:'attrs': "
                                 'dict{builtins.str:\'chunked_with\': builtins.str:"(({\'x\': '
                                 '1},), {})"}, builtins.str:\'encoding\': dict{}}, '
                                 'builtins.str:"[([\'c\', \'d\'], ({\'x\': 1},), {})]", '
                                 'builtins.bool:True)',
 'tree-recorded|variables|x': "list(dict{builtins.str:'type': builtins.str:'DataTree', "
                              "builtins.str:'name': builtins.NoneType:None, builtins.str:'paths': "
                              "list(builtins.str:'/'), builtins.str:'nodes': "
                              "dict{builtins.str:'/': dict{builtins.str:'type': "
                              "builtins.str:'Dataset', builtins.str:'sizes': "
                              "dict{builtins.str:'x': builtins.int:3, builtins.str:'y': "
                              "builtins.int:4}, builtins.str:'data_vars': dict{builtins.str:'c': "
                              "dict{builtins.str:'dims': tuple(builtins.str:'x'), "
                              "builtins.str:'dtype': builtins.str:'int8', builtins.str:'attrs': "
                              "dict{builtins.str:'a': builtins.int:1}, builtins.str:'encoding': "
                              "dict{}, builtins.str:'data-type': builtins.str:'ndarray', "
                              "builtins.str:'values': ndarray[|i1|(3,)|010203]}, builtins.str:'d': "
                              "dict{builtins.str:'dims': tuple(builtins.str:'x', "
                              "builtins.str:'y'), builtins.str:'dtype': builtins.str:'int64', "
                              "builtins.str:'attrs': dict{builtins.str:'b': builtins.str:'abc'}, "
                              "builtins.str:'encoding': dict{}, builtins.str:'data-type': "
                              "builtins.str:'ndarray', builtins.str:'values': ndarray[<i8|(3, "
                              '4)|00000000000000000100000000000000020000000000000003000000000000000400000000000000050000000000000006000000000000000700000000000000080000000000000009000000000000000a000000000000000b00000000000000]}}, '
                              "builtins.str:'coords': dict{}, builtins.str:'attrs': "
                              'dict{builtins.str:\'chunked_with\': builtins.str:"(({\'x\': 1},), '
                              '{})"}, builtins.str:\'encoding\': dict{}}}}, '
                              'builtins.str:"[([\'c\', \'d\'], ({\'x\': 1},), {}), ([\'c\', '
                              '\'d\'], ({\'x\': 1},), {})]", builtins.bool:True)',
 'dataset|variables|xy': "list(raise builtins.ImportError: chunk manager 'dask' is not available. "
                         "Please make sure 'dask' is installed and importable., "
                         "builtins.str:'None', builtins.bool:True)",
 'tree|variables|xy': "list(raise builtins.ImportError: chunk manager 'dask' is not available. "
                      "Please make sure 'dask' is installed and importable., builtins.str:'None', "
                      'builtins.bool:True)',
 'dataset-recorded|variables|xy': "list(dict{builtins.str:'type': builtins.str:'Dataset', "
                                  "builtins.str:'sizes': dict{builtins.str:'x': builtins.int:3, "
                                  "builtins.str:'y': builtins.int:4}, builtins.str:'data_vars': "
                                  "dict{builtins.str:'c': dict{builtins.str:'dims': "
                                  "tuple(builtins.str:'x'), builtins.str:'dtype': "
                                  "builtins.str:'int8', builtins.str:'attrs': "
                                  "dict{builtins.str:'a': builtins.int:1}, "
                                  "builtins.str:'encoding': dict{}, builtins.str:'data-type': "
                                  "builtins.str:'ndarray', builtins.str:'values': "
                                  "ndarray[|i1|(3,)|010203]}, builtins.str:'d': "
                                  "dict{builtins.str:'dims': tuple(builtins.str:'x', "
                                  "builtins.str:'y'), builtins.str:'dtype': builtins.str:'int64', "
                                  "builtins.str:'attrs': dict{builtins.str:'b': "
                                  "builtins.str:'abc'}, builtins.str:'encoding': dict{}, "
                                  "builtins.str:'data-type': builtins.str:'ndarray', "
                                  "builtins.str:'values': ndarray[<i8|(3, "
                                  '4)|00000000000000000100000000000000020000000000000003000000000000000400000000000000050000000000000006000000000000000700000000000000080000000000000009000000000000000a000000000000000b00000000000000]}}, '
                                  "builtins.str:'coords': dict{}, builtins.str:'attrs': "
                                  'dict{builtins.str:\'chunked_with\': builtins.str:"(({\'x\': 1, '
                                  '\'y\': 2},), {})"}, builtins.str:\'encoding\': dict{}}, '
                                  'builtins.str:"[([\'c\', \'d\'], ({\'x\': 1, \'y\': 2},), {})]", '
                                  'builtins.bool:True)',
 'tree-recorded|variables|xy': "list(dict{builtins.str:'type': builtins.str:'DataTree', "
                               "builtins.str:'name': builtins.NoneType:None, builtins.str:'paths': "
                               "list(builtins.str:'/'), builtins.str:'nodes': "
                               "dict{builtins.str:'/': dict{builtins.str:'type': "
                               "builtins.str:'Dataset', builtins.str:'sizes': "
                               "dict{builtins.str:'x': builtins.int:3, builtins.str:'y': "
                               "builtins.int:4}, builtins.str:'data_vars': dict{builtins.str:'c': "
                               "dict{builtins.str:'dims': tuple(builtins.str:'x'), "
                               "builtins.str:'dtype': builtins.str:'int8', builtins.str:'attrs': "
                               "dict{builtins.str:'a': builtins.int:1}, builtins.str:'encoding': "
                               "dict{}, builtins.str:'data-type': builtins.str:'ndarray', "
                               "builtins.str:'values': ndarray[|i1|(3,)|010203]}, "
                               "builtins.str:'d': dict{builtins.str:'dims': "
                               "tuple(builtins.str:'x', builtins.str:'y'), builtins.str:'dtype': "
                               "builtins.str:'int64', builtins.str:'attrs': dict{builtins.str:'b': "
                               "builtins.str:'abc'}, builtins.str:'encoding': dict{}, "
                               "builtins.str:'data-type': builtins.str:'ndarray', "
                               "builtins.str:'values': ndarray[<i8|(3, "
                               '4)|00000000000000000100000000000000020000000000000003000000000000000400000000000000050000000000000006000000000000000700000000000000080000000000000009000000000000000a000000000000000b00000000000000]}}, '
                               "builtins.str:'coords': dict{}, builtins.str:'attrs': "
                               'dict{builtins.str:\'chunked_with\': builtins.str:"(({\'x\': 1, '
                               '\'y\': 2},), {})"}, builtins.str:\'encoding\': dict{}}}}, '
                               'builtins.str:"[([\'c\', \'d\'], ({\'x\': 1, \'y\': 2},), {}), '
                               '([\'c\', \'d\'], ({\'x\': 1, \'y\': 2},), {})]", '
                               'builtins.bool:True)',
 'dataset|variables|yx': "list(raise builtins.ImportError: chunk manager 'dask' is not available. "
                         "Please make sure 'dask' is installed and importable., "
                         "builtins.str:'None', builtins.bool:True)",
 'tree|variables|yx': "list(raise builtins.ImportError: chunk manager 'dask' is not available. "
                      "Please make sure 'dask' is installed and importable., builtins.str:'None', "
                      'builtins.bool:True)',
 'dataset-recorded|variables|yx': "list(dict{builtins.str:'type': builtins.str:'Dataset', "
                                  "builtins.str:'sizes': dict{builtins.str:'x': builtins.int:3, "
                                  "builtins.str:'y': builtins.int:4}, builtins.str:'data_vars': "
                                  "dict{builtins.str:'c': dict{builtins.str:'dims': "
                                  "tuple(builtins.str:'x'), builtins.str:'dtype': "
                                  "builtins.str:'int8', builtins.str:'attrs': "
                                  "dict{builtins.str:'a': builtins.int:1}, "
                                  "builtins.str:'encoding': dict{}, builtins.str:'data-type': "
                                  "builtins.str:'ndarray', builtins.str:'values': "
                                  "ndarray[|i1|(3,)|010203]}, builtins.str:'d': "
                                  "dict{builtins.str:'dims': tuple(builtins.str:'x', "
                                  "builtins.str:'y'), builtins.str:'dtype': builtins.str:'int64', "
                                  "builtins.str:'attrs': dict{builtins.str:'b': "
                                  "builtins.str:'abc'}, builtins.str:'encoding': dict{}, "
                                  "builtins.str:'data-type': builtins.str:'ndarray', "
                                  "builtins.str:'values': ndarray[<i8|(3, "
                                  '4)|00000000000000000100000000000000020000000000000003000000000000000400000000000000050000000000000006000000000000000700000000000000080000000000000009000000000000000a000000000000000b00000000000000]}}, '
                                  "builtins.str:'coords': dict{}, builtins.str:'attrs': "
                                  'dict{builtins.str:\'chunked_with\': builtins.str:"(({\'y\': 2, '
                                  '\'x\': -1},), {})"}, builtins.str:\'encoding\': dict{}}, '
                                  'builtins.str:"[([\'c\', \'d\'], ({\'y\': 2, \'x\': -1},), '
                                  '{})]", builtins.bool:True)',
 'tree-recorded|variables|yx': "list(dict{builtins.str:'type': builtins.str:'DataTree', "
                               "builtins.str:'name': builtins.NoneType:None, builtins.str:'paths': "
                               "list(builtins.str:'/'), builtins.str:'nodes': "
                               "dict{builtins.str:'/': dict{builtins.str:'type': "
                               "builtins.str:'Dataset', builtins.str:'sizes': "
                               "dict{builtins.str:'x': builtins.int:3, builtins.str:'y': "
                               "builtins.int:4}, builtins.str:'data_vars': dict{builtins.str:'c': "
                               "dict{builtins.str:'dims': tuple(builtins.str:'x'), "
                               "builtins.str:'dtype': builtins.str:'int8', builtins.str:'attrs': "
                               "dict{builtins.str:'a': builtins.int:1}, builtins.str:'encoding': "
                               "dict{}, builtins.str:'data-type': builtins.str:'ndarray', "
                               "builtins.str:'values': ndarray[|i1|(3,)|010203]}, "
                               "builtins.str:'d': dict{builtins.str:'dims': "
                               "tuple(builtins.str:'x', builtins.str:'y'), builtins.str:'dtype': "
                               "builtins.str:'int64', builtins.str:'attrs': dict{builtins.str:'b': "
                               "builtins.str:'abc'}, builtins.str:'encoding': dict{}, "
                               "builtins.str:'data-type': builtins.str:'ndarray', "
                               "builtins.str:'values': ndarray[<i8|(3, "
                               '4)|00000000000000000100000000000000020000000000000003000000000000000400000000000000050000000000000006000000000000000700000000000000080000000000000009000000000000000a000000000000000b00000000000000]}}, '
                               "builtins.str:'coords': dict{}, builtins.str:'attrs': "
                               'dict{builtins.str:\'chunked_with\': builtins.str:"(({\'y\': 2, '
                               '\'x\': -1},), {})"}, builtins.str:\'encoding\': dict{}}}}, '
                               'builtins.str:"[([\'c\', \'d\'], ({\'y\': 2, \'x\': -1},), {}), '
                               '([\'c\', \'d\'], ({\'y\': 2, \'x\': -1},), {})]", '
                               'builtins.bool:True)',
 'dataset|variables|unknown': "list(raise builtins.ImportError: chunk manager 'dask' is not "
                              "available. Please make sure 'dask' is installed and importable., "
                              "builtins.str:'None', builtins.bool:True)",
 'tree|variables|unknown': "list(raise builtins.ImportError: chunk manager 'dask' is not "
                           "available. Please make sure 'dask' is installed and importable., "
                           "builtins.str:'None', builtins.bool:True)",
 'dataset-recorded|variables|unknown': "list(dict{builtins.str:'type': builtins.str:'Dataset', "
                                       "builtins.str:'sizes': dict{builtins.str:'x': "
                                       "builtins.int:3, builtins.str:'y': builtins.int:4}, "
                                       "builtins.str:'data_vars': dict{builtins.str:'c': "
                                       "dict{builtins.str:'dims': tuple(builtins.str:'x'), "
                                       "builtins.str:'dtype': builtins.str:'int8', "
                                       "builtins.str:'attrs': dict{builtins.str:'a': "
                                       "builtins.int:1}, builtins.str:'encoding': dict{}, "
                                       "builtins.str:'data-type': builtins.str:'ndarray', "
                                       "builtins.str:'values': ndarray[|i1|(3,)|010203]}, "
                                       "builtins.str:'d': dict{builtins.str:'dims': "
                                       "tuple(builtins.str:'x', builtins.str:'y'), "
                                       "builtins.str:'dtype': builtins.str:'int64', "
                                       "builtins.str:'attrs': dict{builtins.str:'b': "
                                       "builtins.str:'abc'}, builtins.str:'encoding': dict{}, "
                                       "builtins.str:'data-type': builtins.str:'ndarray', "
                                       "builtins.str:'values': ndarray[<i8|(3, "
                                       '4)|00000000000000000100000000000000020000000000000003000000000000000400000000000000050000000000000006000000000000000700000000000000080000000000000009000000000000000a000000000000000b00000000000000]}}, '
                                       "builtins.str:'coords': dict{}, builtins.str:'attrs': "
                                       "dict{builtins.str:'chunked_with': builtins.str:'(({},), "
                                       "{})'}, builtins.str:'encoding': dict{}}, "
                                       'builtins.str:"[([\'c\', \'d\'], ({},), {})]", '
                                       'builtins.bool:True)',
 'tree-recorded|variables|unknown': "list(dict{builtins.str:'type': builtins.str:'DataTree', "
                                    "builtins.str:'name': builtins.NoneType:None, "
                                    "builtins.str:'paths': list(builtins.str:'/'), "
                                    "builtins.str:'nodes': dict{builtins.str:'/': "
                                    "dict{builtins.str:'type': builtins.str:'Dataset', "
                                    "builtins.str:'sizes': dict{builtins.str:'x': builtins.int:3, "
                                    "builtins.str:'y': builtins.int:4}, builtins.str:'data_vars': "
                                    "dict{builtins.str:'c': dict{builtins.str:'dims': "
                                    "tuple(builtins.str:'x'), builtins.str:'dtype': "
                                    "builtins.str:'int8', builtins.str:'attrs': "
                                    "dict{builtins.str:'a': builtins.int:1}, "
                                    "builtins.str:'encoding': dict{}, builtins.str:'data-type': "
                                    "builtins.str:'ndarray', builtins.str:'values': "
                                    "ndarray[|i1|(3,)|010203]}, builtins.str:'d': "
                                    "dict{builtins.str:'dims': tuple(builtins.str:'x', "
                                    "builtins.str:'y'), builtins.str:'dtype': "
                                    "builtins.str:'int64', builtins.str:'attrs': "
                                    "dict{builtins.str:'b': builtins.str:'abc'}, "
                                    "builtins.str:'encoding': dict{}, builtins.str:'data-type': "
                                    "builtins.str:'ndarray', builtins.str:'values': "
                                    'ndarray[<i8|(3, '
                                    '4)|00000000000000000100000000000000020000000000000003000000000000000400000000000000050000000000000006000000000000000700000000000000080000000000000009000000000000000a000000000000000b00000000000000]}}, '
                                    "builtins.str:'coords': dict{}, builtins.str:'attrs': "
                                    "dict{builtins.str:'chunked_with': builtins.str:'(({},), "
                                    "{})'}, builtins.str:'encoding': dict{}}}}, "
                                    'builtins.str:"[([\'c\', \'d\'], ({},), {}), ([\'c\', \'d\'], '
                                    '({},), {})]", builtins.bool:True)',
 'dataset|variables|mixed': "list(raise builtins.ImportError: chunk manager 'dask' is not "
                            "available. Please make sure 'dask' is installed and importable., "
                            "builtins.str:'None', builtins.bool:True)",
 'tree|variables|mixed': "list(raise builtins.ImportError: chunk manager 'dask' is not available. "
                         "Please make sure 'dask' is installed and importable., "
                         "builtins.str:'None', builtins.bool:True)",
 'dataset-recorded|variables|mixed': "list(dict{builtins.str:'type': builtins.str:'Dataset', "
                                     "builtins.str:'sizes': dict{builtins.str:'x': builtins.int:3, "
                                     "builtins.str:'y': builtins.int:4}, builtins.str:'data_vars': "
                                     "dict{builtins.str:'c': dict{builtins.str:'dims': "
                                     "tuple(builtins.str:'x'), builtins.str:'dtype': "
                                     "builtins.str:'int8', builtins.str:'attrs': "
                                     "dict{builtins.str:'a': builtins.int:1}, "
                                     "builtins.str:'encoding': dict{}, builtins.str:'data-type': "
                                     "builtins.str:'ndarray', builtins.str:'values': "
                                     "ndarray[|i1|(3,)|010203]}, builtins.str:'d': "
                                     "dict{builtins.str:'dims': tuple(builtins.str:'x', "
                                     "builtins.str:'y'), builtins.str:'dtype': "
                                     "builtins.str:'int64', builtins.str:'attrs': "
                                     "dict{builtins.str:'b': builtins.str:'abc'}, "
                                     "builtins.str:'encoding': dict{}, builtins.str:'data-type': "
                                     "builtins.str:'ndarray', builtins.str:'values': "
                                     'ndarray[<i8|(3, '
                                     '4)|00000000000000000100000000000000020000000000000003000000000000000400000000000000050000000000000006000000000000000700000000000000080000000000000009000000000000000a000000000000000b00000000000000]}}, '
                                     "builtins.str:'coords': dict{}, builtins.str:'attrs': "
                                     'dict{builtins.str:\'chunked_with\': builtins.str:"(({\'x\': '
                                     '\'auto\'},), {})"}, builtins.str:\'encoding\': dict{}}, '
                                     'builtins.str:"[([\'c\', \'d\'], ({\'x\': \'auto\'},), {})]", '
                                     'builtins.bool:True)',
 'tree-recorded|variables|mixed': "list(dict{builtins.str:'type': builtins.str:'DataTree', "
                                  "builtins.str:'name': builtins.NoneType:None, "
                                  "builtins.str:'paths': list(builtins.str:'/'), "
                                  "builtins.str:'nodes': dict{builtins.str:'/': "
                                  "dict{builtins.str:'type': builtins.str:'Dataset', "
                                  "builtins.str:'sizes': dict{builtins.str:'x': builtins.int:3, "
                                  "builtins.str:'y': builtins.int:4}, builtins.str:'data_vars': "
                                  "dict{builtins.str:'c': dict{builtins.str:'dims': "
                                  "tuple(builtins.str:'x'), builtins.str:'dtype': "
                                  "builtins.str:'int8', builtins.str:'attrs': "
                                  "dict{builtins.str:'a': builtins.int:1}, "
                                  "builtins.str:'encoding': dict{}, builtins.str:'data-type': "
                                  "builtins.str:'ndarray', builtins.str:'values': "
                                  "ndarray[|i1|(3,)|010203]}, builtins.str:'d': "
                                  "dict{builtins.str:'dims': tuple(builtins.str:'x', "
                                  "builtins.str:'y'), builtins.str:'dtype': builtins.str:'int64', "
                                  "builtins.str:'attrs': dict{builtins.str:'b': "
                                  "builtins.str:'abc'}, builtins.str:'encoding': dict{}, "
                                  "builtins.str:'data-type': builtins.str:'ndarray', "
                                  "builtins.str:'values': ndarray[<i8|(3, "
                                  '4)|00000000000000000100000000000000020000000000000003000000000000000400000000000000050000000000000006000000000000000700000000000000080000000000000009000000000000000a000000000000000b00000000000000]}}, '
                                  "builtins.str:'coords': dict{}, builtins.str:'attrs': "
                                  'dict{builtins.str:\'chunked_with\': builtins.str:"(({\'x\': '
                                  '\'auto\'},), {})"}, builtins.str:\'encoding\': dict{}}}}, '
                                  'builtins.str:"[([\'c\', \'d\'], ({\'x\': \'auto\'},), {}), '
                                  '([\'c\', \'d\'], ({\'x\': \'auto\'},), {})]", '
                                  'builtins.bool:True)',
 'dataset|variables|int': "list(raise builtins.AttributeError: 'int' object has no attribute "
                          "'items', builtins.str:'None', builtins.bool:True)",
 'tree|variables|int': "list(raise builtins.AttributeError: 'int' object has no attribute 'items', "
                       "builtins.str:'None', builtins.bool:True)",
 'dataset-recorded|variables|int': "list(raise builtins.AttributeError: 'int' object has no "
                                   "attribute 'items', builtins.str:'[]', builtins.bool:True)",
 'tree-recorded|variables|int': "list(raise builtins.AttributeError: 'int' object has no attribute "
                                "'items', builtins.str:'[]', builtins.bool:True)",
 'dataset|variables|str': "list(raise builtins.AttributeError: 'str' object has no attribute "
                          "'items', builtins.str:'None', builtins.bool:True)",
 'tree|variables|str': "list(raise builtins.AttributeError: 'str' object has no attribute 'items', "
                       "builtins.str:'None', builtins.bool:True)",
 'dataset-recorded|variables|str': "list(raise builtins.AttributeError: 'str' object has no "
                                   "attribute 'items', builtins.str:'[]', builtins.bool:True)",
 'tree-recorded|variables|str': "list(raise builtins.AttributeError: 'str' object has no attribute "
                                "'items', builtins.str:'[]', builtins.bool:True)",
 'dataset|variables|list': "list(raise builtins.AttributeError: 'list' object has no attribute "
                           "'items', builtins.str:'None', builtins.bool:True)",
 'tree|variables|list': "list(raise builtins.AttributeError: 'list' object has no attribute "
                        "'items', builtins.str:'None', builtins.bool:True)",
 'dataset-recorded|variables|list': "list(raise builtins.AttributeError: 'list' object has no "
                                    "attribute 'items', builtins.str:'[]', builtins.bool:True)",
 'tree-recorded|variables|list': "list(raise builtins.AttributeError: 'list' object has no "
                                 "attribute 'items', builtins.str:'[]', builtins.bool:True)",
 'dataset|variables|tuple-keys': "list(raise builtins.ImportError: chunk manager 'dask' is not "
                                 "available. Please make sure 'dask' is installed and importable., "
                                 "builtins.str:'None', builtins.bool:True)",
 'tree|variables|tuple-keys': "list(raise builtins.ImportError: chunk manager 'dask' is not "
                              "available. Please make sure 'dask' is installed and importable., "
                              "builtins.str:'None', builtins.bool:True)",
 'dataset-recorded|variables|tuple-keys': "list(dict{builtins.str:'type': builtins.str:'Dataset', "
                                          "builtins.str:'sizes': dict{builtins.str:'x': "
                                          "builtins.int:3, builtins.str:'y': builtins.int:4}, "
                                          "builtins.str:'data_vars': dict{builtins.str:'c': "
                                          "dict{builtins.str:'dims': tuple(builtins.str:'x'), "
                                          "builtins.str:'dtype': builtins.str:'int8', "
                                          "builtins.str:'attrs': dict{builtins.str:'a': "
                                          "builtins.int:1}, builtins.str:'encoding': dict{}, "
                                          "builtins.str:'data-type': builtins.str:'ndarray', "
                                          "builtins.str:'values': ndarray[|i1|(3,)|010203]}, "
                                          "builtins.str:'d': dict{builtins.str:'dims': "
                                          "tuple(builtins.str:'x', builtins.str:'y'), "
                                          "builtins.str:'dtype': builtins.str:'int64', "
                                          "builtins.str:'attrs': dict{builtins.str:'b': "
                                          "builtins.str:'abc'}, builtins.str:'encoding': dict{}, "
                                          "builtins.str:'data-type': builtins.str:'ndarray', "
                                          "builtins.str:'values': ndarray[<i8|(3, "
                                          '4)|00000000000000000100000000000000020000000000000003000000000000000400000000000000050000000000000006000000000000000700000000000000080000000000000009000000000000000a000000000000000b00000000000000]}}, '
                                          "builtins.str:'coords': dict{}, builtins.str:'attrs': "
                                          "dict{builtins.str:'chunked_with': builtins.str:'(({},), "
                                          "{})'}, builtins.str:'encoding': dict{}}, "
                                          'builtins.str:"[([\'c\', \'d\'], ({},), {})]", '
                                          'builtins.bool:True)',
 'tree-recorded|variables|tuple-keys': "list(dict{builtins.str:'type': builtins.str:'DataTree', "
                                       "builtins.str:'name': builtins.NoneType:None, "
                                       "builtins.str:'paths': list(builtins.str:'/'), "
                                       "builtins.str:'nodes': dict{builtins.str:'/': "
                                       "dict{builtins.str:'type': builtins.str:'Dataset', "
                                       "builtins.str:'sizes': dict{builtins.str:'x': "
                                       "builtins.int:3, builtins.str:'y': builtins.int:4}, "
                                       "builtins.str:'data_vars': dict{builtins.str:'c': "
                                       "dict{builtins.str:'dims': tuple(builtins.str:'x'), "
                                       "builtins.str:'dtype': builtins.str:'int8', "
                                       "builtins.str:'attrs': dict{builtins.str:'a': "
                                       "builtins.int:1}, builtins.str:'encoding': dict{}, "
                                       "builtins.str:'data-type': builtins.str:'ndarray', "
                                       "builtins.str:'values': ndarray[|i1|(3,)|010203]}, "
                                       "builtins.str:'d': dict{builtins.str:'dims': "
                                       "tuple(builtins.str:'x', builtins.str:'y'), "
                                       "builtins.str:'dtype': builtins.str:'int64', "
                                       "builtins.str:'attrs': dict{builtins.str:'b': "
                                       "builtins.str:'abc'}, builtins.str:'encoding': dict{}, "
                                       "builtins.str:'data-type': builtins.str:'ndarray', "
                                       "builtins.str:'values': ndarray[<i8|(3, "
                                       '4)|00000000000000000100000000000000020000000000000003000000000000000400000000000000050000000000000006000000000000000700000000000000080000000000000009000000000000000a000000000000000b00000000000000]}}, '
                                       "builtins.str:'coords': dict{}, builtins.str:'attrs': "
                                       "dict{builtins.str:'chunked_with': builtins.str:'(({},), "
                                       "{})'}, builtins.str:'encoding': dict{}}}}, "
                                       'builtins.str:"[([\'c\', \'d\'], ({},), {}), ([\'c\', '
                                       '\'d\'], ({},), {})]", builtins.bool:True)',
 'dataset|coords-list|none': "list(dict{builtins.str:'type': builtins.str:'Dataset', "
                             "builtins.str:'sizes': dict{builtins.str:'x': builtins.int:3, "
                             "builtins.str:'y': builtins.int:4}, builtins.str:'data_vars': "
                             "dict{builtins.str:'c': dict{builtins.str:'dims': "
                             "tuple(builtins.str:'x'), builtins.str:'dtype': builtins.str:'int8', "
                             "builtins.str:'attrs': dict{builtins.str:'a': builtins.int:1}, "
                             "builtins.str:'encoding': dict{}, builtins.str:'data-type': "
                             "builtins.str:'ndarray', builtins.str:'values': "
                             "ndarray[|i1|(3,)|010203]}}, builtins.str:'coords': "
                             "dict{builtins.str:'d': dict{builtins.str:'dims': "
                             "tuple(builtins.str:'x', builtins.str:'y'), builtins.str:'dtype': "
                             "builtins.str:'int64', builtins.str:'attrs': dict{builtins.str:'b': "
                             "builtins.str:'abc'}, builtins.str:'encoding': dict{}, "
                             "builtins.str:'data-type': builtins.str:'ndarray', "
                             "builtins.str:'values': ndarray[<i8|(3, "
                             '4)|00000000000000000100000000000000020000000000000003000000000000000400000000000000050000000000000006000000000000000700000000000000080000000000000009000000000000000a000000000000000b00000000000000]}}, '
                             "builtins.str:'attrs': dict{}, builtins.str:'encoding': dict{}}, "
                             "builtins.str:'None', builtins.bool:True)",
 'tree|coords-list|none': "list(dict{builtins.str:'type': builtins.str:'DataTree', "
                          "builtins.str:'name': builtins.NoneType:None, builtins.str:'paths': "
                          "list(builtins.str:'/'), builtins.str:'nodes': dict{builtins.str:'/': "
                          "dict{builtins.str:'type': builtins.str:'Dataset', builtins.str:'sizes': "
                          "dict{builtins.str:'x': builtins.int:3, builtins.str:'y': "
                          "builtins.int:4}, builtins.str:'data_vars': dict{builtins.str:'c': "
                          "dict{builtins.str:'dims': tuple(builtins.str:'x'), "
                          "builtins.str:'dtype': builtins.str:'int8', builtins.str:'attrs': "
                          "dict{builtins.str:'a': builtins.int:1}, builtins.str:'encoding': "
                          "dict{}, builtins.str:'data-type': builtins.str:'ndarray', "
                          "builtins.str:'values': ndarray[|i1|(3,)|010203]}}, "
                          "builtins.str:'coords': dict{builtins.str:'d': dict{builtins.str:'dims': "
                          "tuple(builtins.str:'x', builtins.str:'y'), builtins.str:'dtype': "
                          "builtins.str:'int64', builtins.str:'attrs': dict{builtins.str:'b': "
                          "builtins.str:'abc'}, builtins.str:'encoding': dict{}, "
                          "builtins.str:'data-type': builtins.str:'ndarray', "
                          "builtins.str:'values': ndarray[<i8|(3, "
                          '4)|00000000000000000100000000000000020000000000000003000000000000000400000000000000050000000000000006000000000000000700000000000000080000000000000009000000000000000a000000000000000b00000000000000]}}, '
                          "builtins.str:'attrs': dict{}, builtins.str:'encoding': dict{}}}}, "
                          "builtins.str:'None', builtins.bool:True)",
 'dataset|coords-list|empty': "list(raise builtins.ImportError: chunk manager 'dask' is not "
                              "available. Please make sure 'dask' is installed and importable., "
                              "builtins.str:'None', builtins.bool:True)",
 'tree|coords-list|empty': "list(raise builtins.ImportError: chunk manager 'dask' is not "
                           "available. Please make sure 'dask' is installed and importable., "
                           "builtins.str:'None', builtins.bool:True)",
 'dataset-recorded|coords-list|empty': "list(dict{builtins.str:'type': builtins.str:'Dataset', "
                                       "builtins.str:'sizes': dict{builtins.str:'x': "
                                       "builtins.int:3, builtins.str:'y': builtins.int:4}, "
                                       "builtins.str:'data_vars': dict{builtins.str:'c': "
                                       "dict{builtins.str:'dims': tuple(builtins.str:'x'), "
                                       "builtins.str:'dtype': builtins.str:'int8', "
                                       "builtins.str:'attrs': dict{builtins.str:'a': "
                                       "builtins.int:1}, builtins.str:'encoding': dict{}, "
                                       "builtins.str:'data-type': builtins.str:'ndarray', "
                                       "builtins.str:'values': ndarray[|i1|(3,)|010203]}}, "
                                       "builtins.str:'coords': dict{builtins.str:'d': "
                                       "dict{builtins.str:'dims': tuple(builtins.str:'x', "
                                       "builtins.str:'y'), builtins.str:'dtype': "
                                       "builtins.str:'int64', builtins.str:'attrs': "
                                       "dict{builtins.str:'b': builtins.str:'abc'}, "
                                       "builtins.str:'encoding': dict{}, builtins.str:'data-type': "
                                       "builtins.str:'ndarray', builtins.str:'values': "
                                       'ndarray[<i8|(3, '
                                       '4)|00000000000000000100000000000000020000000000000003000000000000000400000000000000050000000000000006000000000000000700000000000000080000000000000009000000000000000a000000000000000b00000000000000]}}, '
                                       "builtins.str:'attrs': dict{builtins.str:'chunked_with': "
                                       "builtins.str:'(({},), {})'}, builtins.str:'encoding': "
                                       'dict{}}, builtins.str:"[([\'c\', \'d\'], ({},), {})]", '
                                       'builtins.bool:True)',
 'tree-recorded|coords-list|empty': "list(dict{builtins.str:'type': builtins.str:'DataTree', "
                                    "builtins.str:'name': builtins.NoneType:None, "
                                    "builtins.str:'paths': list(builtins.str:'/'), "
                                    "builtins.str:'nodes': dict{builtins.str:'/': "
                                    "dict{builtins.str:'type': builtins.str:'Dataset', "
                                    "builtins.str:'sizes': dict{builtins.str:'x': builtins.int:3, "
                                    "builtins.str:'y': builtins.int:4}, builtins.str:'data_vars': "
                                    "dict{builtins.str:'c': dict{builtins.str:'dims': "
                                    "tuple(builtins.str:'x'), builtins.str:'dtype': "
                                    "builtins.str:'int8', builtins.str:'attrs': "
                                    "dict{builtins.str:'a': builtins.int:1}, "
                                    "builtins.str:'encoding': dict{}, builtins.str:'data-type': "
                                    "builtins.str:'ndarray', builtins.str:'values': "
                                    "ndarray[|i1|(3,)|010203]}}, builtins.str:'coords': "
                                    "dict{builtins.str:'d': dict{builtins.str:'dims': "
                                    "tuple(builtins.str:'x', builtins.str:'y'), "
                                    "builtins.str:'dtype': builtins.str:'int64', "
                                    "builtins.str:'attrs': dict{builtins.str:'b': "
                                    "builtins.str:'abc'}, builtins.str:'encoding': dict{}, "
                                    "builtins.str:'data-type': builtins.str:'ndarray', "
                                    "builtins.str:'values': ndarray[<i8|(3, "
                                    '4)|00000000000000000100000000000000020000000000000003000000000000000400000000000000050000000000000006000000000000000700000000000000080000000000000009000000000000000a000000000000000b00000000000000]}}, '
                                    "builtins.str:'attrs': dict{builtins.str:'chunked_with': "
                                    "builtins.str:'(({},), {})'}, builtins.str:'encoding': "
                                    'dict{}}}}, builtins.str:"[([\'c\', \'d\'], ({},), {}), '
                                    '([\'c\', \'d\'], ({},), {})]", builtins.bool:True)',
 'dataset|coords-list|x': "list(raise builtins.ImportError: chunk manager 'dask' is not available. "
                          "Please make sure 'dask' is installed and importable., "
                          "builtins.str:'None', builtins.bool:True)",
 'tree|coords-list|x': "list(raise builtins.ImportError: chunk manager 'dask' is not available. "
                       "Please make sure 'dask' is installed and importable., builtins.str:'None', "
                       'builtins.bool:True)',
 'dataset-recorded|coords-list|x': "list(dict{builtins.str:'type': builtins.str:'Dataset', "
                                   "builtins.str:'sizes': dict{builtins.str:'x': builtins.int:3, "
                                   "builtins.str:'y': builtins.int:4}, builtins.str:'data_vars': "
                                   "dict{builtins.str:'c': dict{builtins.str:'dims': "
                                   "tuple(builtins.str:'x'), builtins.str:'dtype': "
                                   "builtins.str:'int8', builtins.str:'attrs': "
                                   "dict{builtins.str:'a': builtins.int:1}, "
                                   "builtins.str:'encoding': dict{}, builtins.str:'data-type': "
                                   "builtins.str:'ndarray', builtins.str:'values': "
                                   "ndarray[|i1|(3,)|010203]}}, builtins.str:'coords': "
                                   "dict{builtins.str:'d': dict{builtins.str:'dims': "
                                   "tuple(builtins.str:'x', builtins.str:'y'), "
                                   "builtins.str:'dtype': builtins.str:'int64', "
                                   "builtins.str:'attrs': dict{builtins.str:'b': "
                                   "builtins.str:'abc'}, builtins.str:'encoding': dict{}, "
                                   "builtins.str:'data-type': builtins.str:'ndarray', "
                                   "builtins.str:'values': ndarray[<i8|(3, "
                                   '4)|00000000000000000100000000000000020000000000000003000000000000000400000000000000050000000000000006000000000000000700000000000000080000000000000009000000000000000a000000000000000b00000000000000]}}, '
                                   "builtins.str:'attrs': dict{builtins.str:'chunked_with': "
                                   'builtins.str:"(({\'x\': 1},), {})"}, '
                                   'builtins.str:\'encoding\': dict{}}, builtins.str:"[([\'c\', '
                                   '\'d\'], ({\'x\': 1},), {})]", builtins.bool:True)',
 'tree-recorded|coords-list|x': "list(dict{builtins.str:'type': builtins.str:'DataTree', "
                                "builtins.str:'name': builtins.NoneType:None, "
                                "builtins.str:'paths': list(builtins.str:'/'), "
                                "builtins.str:'nodes': dict{builtins.str:'/': "
                                "dict{builtins.str:'type': builtins.str:'Dataset', "
                                "builtins.str:'sizes': dict{builtins.str:'x': builtins.int:3, "
                                "builtins.str:'y': builtins.int:4}, builtins.str:'data_vars': "
                                "dict{builtins.str:'c': dict{builtins.str:'dims': "
                                "tuple(builtins.str:'x'), builtins.str:'dtype': "
                                "builtins.str:'int8', builtins.str:'attrs': dict{builtins.str:'a': "
                                "builtins.int:1}, builtins.str:'encoding': dict{}, "
                                "builtins.str:'data-type': builtins.str:'ndarray', "
                                "builtins.str:'values': ndarray[|i1|(3,)|010203]}}, "
                                "builtins.str:'coords': dict{builtins.str:'d': "
                                "dict{builtins.str:'dims': tuple(builtins.str:'x', "
                                "builtins.str:'y'), builtins.str:'dtype': builtins.str:'int64', "
                                "builtins.str:'attrs': dict{builtins.str:'b': builtins.str:'abc'}, "
                                "builtins.str:'encoding': dict{}, builtins.str:'data-type': "
                                "builtins.str:'ndarray', builtins.str:'values': ndarray[<i8|(3, "
                                '4)|00000000000000000100000000000000020000000000000003000000000000000400000000000000050000000000000006000000000000000700000000000000080000000000000009000000000000000a000000000000000b00000000000000]}}, '
                                "builtins.str:'attrs': dict{builtins.str:'chunked_with': "
                                'builtins.str:"(({\'x\': 1},), {})"}, builtins.str:\'encoding\': '
                                'dict{}}}}, builtins.str:"[([\'c\', \'d\'], ({\'x\': 1},), {}), '
                                '([\'c\', \'d\'], ({\'x\': 1},), {})]", builtins.bool:True)',
 'dataset|coords-list|xy': "list(raise builtins.ImportError: chunk manager 'dask' is not "
                           "available. Please make sure 'dask' is installed and importable., "
                           "builtins.str:'None', builtins.bool:True)",
 'tree|coords-list|xy': "list(raise builtins.ImportError: chunk manager 'dask' is not available. "
                        "Please make sure 'dask' is installed and importable., "
                        "builtins.str:'None', builtins.bool:True)",
 'dataset-recorded|coords-list|xy': "list(dict{builtins.str:'type': builtins.str:'Dataset', "
                                    "builtins.str:'sizes': dict{builtins.str:'x': builtins.int:3, "
                                    "builtins.str:'y': builtins.int:4}, builtins.str:'data_vars': "
                                    "dict{builtins.str:'c': dict{builtins.str:'dims': "
                                    "tuple(builtins.str:'x'), builtins.str:'dtype': "
                                    "builtins.str:'int8', builtins.str:'attrs': "
                                    "dict{builtins.str:'a': builtins.int:1}, "
                                    "builtins.str:'encoding': dict{}, builtins.str:'data-type': "
                                    "builtins.str:'ndarray', builtins.str:'values': "
                                    "ndarray[|i1|(3,)|010203]}}, builtins.str:'coords': "
                                    "dict{builtins.str:'d': dict{builtins.str:'dims': "
                                    "tuple(builtins.str:'x', builtins.str:'y'), "
                                    "builtins.str:'dtype': builtins.str:'int64', "
                                    "builtins.str:'attrs': dict{builtins.str:'b': "
                                    "builtins.str:'abc'}, builtins.str:'encoding': dict{}, "
                                    "builtins.str:'data-type': builtins.str:'ndarray', "
                                    "builtins.str:'values': ndarray[<i8|(3, "
                                    '4)|00000000000000000100000000000000020000000000000003000000000000000400000000000000050000000000000006000000000000000700000000000000080000000000000009000000000000000a000000000000000b00000000000000]}}, '
                                    "builtins.str:'attrs': dict{builtins.str:'chunked_with': "
                                    'builtins.str:"(({\'x\': 1, \'y\': 2},), {})"}, '
                                    'builtins.str:\'encoding\': dict{}}, builtins.str:"[([\'c\', '
                                    '\'d\'], ({\'x\': 1, \'y\': 2},), {})]", builtins.bool:True)',
 'tree-recorded|coords-list|xy': "list(dict{builtins.str:'type': builtins.str:'DataTree', "
                                 "builtins.str:'name': builtins.NoneType:None, "
                                 "builtins.str:'paths': list(builtins.str:'/'), "
                                 "builtins.str:'nodes': dict{builtins.str:'/': "
                                 "dict{builtins.str:'type': builtins.str:'Dataset', "
                                 "builtins.str:'sizes': dict{builtins.str:'x': builtins.int:3, "
                                 "builtins.str:'y': builtins.int:4}, builtins.str:'data_vars': "
                                 "dict{builtins.str:'c': dict{builtins.str:'dims': "
                                 "tuple(builtins.str:'x'), builtins.str:'dtype': "
                                 "builtins.str:'int8', builtins.str:'attrs': "
                                 "dict{builtins.str:'a': builtins.int:1}, builtins.str:'encoding': "
                                 "dict{}, builtins.str:'data-type': builtins.str:'ndarray', "
                                 "builtins.str:'values': ndarray[|i1|(3,)|010203]}}, "
                                 "builtins.str:'coords': dict{builtins.str:'d': "
                                 "dict{builtins.str:'dims': tuple(builtins.str:'x', "
                                 "builtins.str:'y'), builtins.str:'dtype': builtins.str:'int64', "
                                 "builtins.str:'attrs': dict{builtins.str:'b': "
                                 "builtins.str:'abc'}, builtins.str:'encoding': dict{}, "
                                 "builtins.str:'data-type': builtins.str:'ndarray', "
                                 "builtins.str:'values': ndarray[<i8|(3, "
                                 '4)|00000000000000000100000000000000020000000000000003000000000000000400000000000000050000000000000006000000000000000700000000000000080000000000000009000000000000000a000000000000000b00000000000000]}}, '
                                 "builtins.str:'attrs': dict{builtins.str:'chunked_with': "
                                 'builtins.str:"(({\'x\': 1, \'y\': 2},), {})"}, '
                                 'builtins.str:\'encoding\': dict{}}}}, builtins.str:"[([\'c\', '
                                 "'d'], ({'x': 1, 'y': 2},), {}), (['c', 'd'], ({'x': 1, 'y': "
                                 '2},), {})]", builtins.bool:True)',
 'dataset|coords-list|yx': "list(raise builtins.ImportError: chunk manager 'dask' is not "
                           "available. Please make sure 'dask' is installed and importable., "
                           "builtins.str:'None', builtins.bool:True)",
 'tree|coords-list|yx': "list(raise builtins.ImportError: chunk manager 'dask' is not available. "
                        "Please make sure 'dask' is installed and importable., "
                        "builtins.str:'None', builtins.bool:True)",
 'dataset-recorded|coords-list|yx': "list(dict{builtins.str:'type': builtins.str:'Dataset', "
                                    "builtins.str:'sizes': dict{builtins.str:'x': builtins.int:3, "
                                    "builtins.str:'y': builtins.int:4}, builtins.str:'data_vars': "
                                    "dict{builtins.str:'c': dict{builtins.str:'dims': "
                                    "tuple(builtins.str:'x'), builtins.str:'dtype': "
                                    "builtins.str:'int8', builtins.str:'attrs': "
                                    "dict{builtins.str:'a': builtins.int:1}, "
                                    "builtins.str:'encoding': dict{}, builtins.str:'data-type': "
                                    "builtins.str:'ndarray', builtins.str:'values': "
                                    "ndarray[|i1|(3,)|010203]}}, builtins.str:'coords': "
                                    "dict{builtins.str:'d': dict{builtins.str:'dims': "
                                    "tuple(builtins.str:'x', builtins.str:'y'), "
                                    "builtins.str:'dtype': builtins.str:'int64', "
                                    "builtins.str:'attrs': dict{builtins.str:'b': "
                                    "builtins.str:'abc'}, builtins.str:'encoding': dict{}, "
                                    "builtins.str:'data-type': builtins.str:'ndarray', "
                                    "builtins.str:'values': ndarray[<i8|(3, "
                                    '4)|00000000000000000100000000000000020000000000000003000000000000000400000000000000050000000000000006000000000000000700000000000000080000000000000009000000000000000a000000000000000b00000000000000]}}, '
                                    "builtins.str:'attrs': dict{builtins.str:'chunked_with': "
                                    'builtins.str:"(({\'y\': 2, \'x\': -1},), {})"}, '
                                    'builtins.str:\'encoding\': dict{}}, builtins.str:"[([\'c\', '
                                    '\'d\'], ({\'y\': 2, \'x\': -1},), {})]", builtins.bool:True)',
 'tree-recorded|coords-list|yx': "list(dict{builtins.str:'type': builtins.str:'DataTree', "
                                 "builtins.str:'name': builtins.NoneType:None, "
                                 "builtins.str:'paths': list(builtins.str:'/'), "
                                 "builtins.str:'nodes': dict{builtins.str:'/': "
                                 "dict{builtins.str:'type': builtins.str:'Dataset', "
                                 "builtins.str:'sizes': dict{builtins.str:'x': builtins.int:3, "
                                 "builtins.str:'y': builtins.int:4}, builtins.str:'data_vars': "
                                 "dict{builtins.str:'c': dict{builtins.str:'dims': "
                                 "tuple(builtins.str:'x'), builtins.str:'dtype': "
                                 "builtins.str:'int8', builtins.str:'attrs': "
                                 "dict{builtins.str:'a': builtins.int:1}, builtins.str:'encoding': "
                                 "dict{}, builtins.str:'data-type': builtins.str:'ndarray', "
                                 "builtins.str:'values': ndarray[|i1|(3,)|010203]}}, "
                                 "builtins.str:'coords': dict{builtins.str:'d': "
                                 "dict{builtins.str:'dims': tuple(builtins.str:'x', "
                                 "builtins.str:'y'), builtins.str:'dtype': builtins.str:'int64', "
                                 "builtins.str:'attrs': dict{builtins.str:'b': "
                                 "builtins.str:'abc'}, builtins.str:'encoding': dict{}, "
                                 "builtins.str:'data-type': builtins.str:'ndarray', "
                                 "builtins.str:'values': ndarray[<i8|(3, "
                                 '4)|00000000000000000100000000000000020000000000000003000000000000000400000000000000050000000000000006000000000000000700000000000000080000000000000009000000000000000a000000000000000b00000000000000]}}, '
                                 "builtins.str:'attrs': dict{builtins.str:'chunked_with': "
                                 'builtins.str:"(({\'y\': 2, \'x\': -1},), {})"}, '
                                 'builtins.str:\'encoding\': dict{}}}}, builtins.str:"[([\'c\', '
                                 "'d'], ({'y': 2, 'x': -1},), {}), (['c', 'd'], ({'y': 2, 'x': "
                                 '-1},), {})]", builtins.bool:True)',
 'dataset|coords-list|unknown': "list(raise builtins.ImportError: chunk manager 'dask' is not "
                                "available. Please make sure 'dask' is installed and importable., "
                                "builtins.str:'None', builtins.bool:True)",
 'tree|coords-list|unknown': "list(raise builtins.ImportError: chunk manager 'dask' is not "
                             "available. Please make sure 'dask' is installed and importable., "
                             "builtins.str:'None', builtins.bool:True)",
 'dataset-recorded|coords-list|unknown': "list(dict{builtins.str:'type': builtins.str:'Dataset', "
                                         "builtins.str:'sizes': dict{builtins.str:'x': "
                                         "builtins.int:3, builtins.str:'y': builtins.int:4}, "
                                         "builtins.str:'data_vars': dict{builtins.str:'c': "
                                         "dict{builtins.str:'dims': tuple(builtins.str:'x'), "
                                         "builtins.str:'dtype': builtins.str:'int8', "
                                         "builtins.str:'attrs': dict{builtins.str:'a': "
                                         "builtins.int:1}, builtins.str:'encoding': dict{}, "
                                         "builtins.str:'data-type': builtins.str:'ndarray', "
                                         "builtins.str:'values': ndarray[|i1|(3,)|010203]}}, "
                                         "builtins.str:'coords': dict{builtins.str:'d': "
                                         "dict{builtins.str:'dims': tuple(builtins.str:'x', "
                                         "builtins.str:'y'), builtins.str:'dtype': "
                                         "builtins.str:'int64', builtins.str:'attrs': "
                                         "dict{builtins.str:'b': builtins.str:'abc'}, "
                                         "builtins.str:'encoding': dict{}, "
                                         "builtins.str:'data-type': builtins.str:'ndarray', "
                                         "builtins.str:'values': ndarray[<i8|(3, "
                                         '4)|00000000000000000100000000000000020000000000000003000000000000000400000000000000050000000000000006000000000000000700000000000000080000000000000009000000000000000a000000000000000b00000000000000]}}, '
                                         "builtins.str:'attrs': dict{builtins.str:'chunked_with': "
                                         "builtins.str:'(({},), {})'}, builtins.str:'encoding': "
                                         'dict{}}, builtins.str:"[([\'c\', \'d\'], ({},), {})]", '
                                         'builtins.bool:True)',
 'tree-recorded|coords-list|unknown': "list(dict{builtins.str:'type': builtins.str:'DataTree', "
                                      "builtins.str:'name': builtins.NoneType:None, "
                                      "builtins.str:'paths': list(builtins.str:'/'), "
                                      "builtins.str:'nodes': dict{builtins.str:'/': "
                                      "dict{builtins.str:'type': builtins.str:'Dataset', "
                                      "builtins.str:'sizes': dict{builtins.str:'x': "
                                      "builtins.int:3, builtins.str:'y': builtins.int:4}, "
                                      "builtins.str:'data_vars': dict{builtins.str:'c': "
                                      "dict{builtins.str:'dims': tuple(builtins.str:'x'), "
                                      "builtins.str:'dtype': builtins.str:'int8', "
                                      "builtins.str:'attrs': dict{builtins.str:'a': "
                                      "builtins.int:1}, builtins.str:'encoding': dict{}, "
                                      "builtins.str:'data-type': builtins.str:'ndarray', "
                                      "builtins.str:'values': ndarray[|i1|(3,)|010203]}}, "
                                      "builtins.str:'coords': dict{builtins.str:'d': "
                                      "dict{builtins.str:'dims': tuple(builtins.str:'x', "
                                      "builtins.str:'y'), builtins.str:'dtype': "
                                      "builtins.str:'int64', builtins.str:'attrs': "
                                      "dict{builtins.str:'b': builtins.str:'abc'}, "
                                      "builtins.str:'encoding': dict{}, builtins.str:'data-type': "
                                      "builtins.str:'ndarray', builtins.str:'values': "
                                      'ndarray[<i8|(3, '
                                      '4)|00000000000000000100000000000000020000000000000003000000000000000400000000000000050000000000000006000000000000000700000000000000080000000000000009000000000000000a000000000000000b00000000000000]}}, '
                                      "builtins.str:'attrs': dict{builtins.str:'chunked_with': "
                                      "builtins.str:'(({},), {})'}, builtins.str:'encoding': "
                                      'dict{}}}}, builtins.str:"[([\'c\', \'d\'], ({},), {}), '
                                      '([\'c\', \'d\'], ({},), {})]", builtins.bool:True)',
 'dataset|coords-list|mixed': "list(raise builtins.ImportError: chunk manager 'dask' is not "
                              "available. Please make sure 'dask' is installed and importable., "
                              "builtins.str:'None', builtins.bool:True)",
 'tree|coords-list|mixed': "list(raise builtins.ImportError: chunk manager 'dask' is not "
                           "available. Please make sure 'dask' is installed and importable., "
                           "builtins.str:'None', builtins.bool:True)",
 'dataset-recorded|coords-list|mixed': "list(dict{builtins.str:'type': builtins.str:'Dataset', "
                                       "builtins.str:'sizes': dict{builtins.str:'x': "
                                       "builtins.int:3, builtins.str:'y': builtins.int:4}, "
                                       "builtins.str:'data_vars': dict{builtins.str:'c': "
                                       "dict{builtins.str:'dims': tuple(builtins.str:'x'), "
                                       "builtins.str:'dtype': builtins.str:'int8', "
                                       "builtins.str:'attrs': dict{builtins.str:'a': "
                                       "builtins.int:1}, builtins.str:'encoding': dict{}, "
                                       "builtins.str:'data-type': builtins.str:'ndarray', "
                                       "builtins.str:'values': ndarray[|i1|(3,)|010203]}}, "
                                       "builtins.str:'coords': dict{builtins.str:'d': "
                                       "dict{builtins.str:'dims': tuple(builtins.str:'x', "
                                       "builtins.str:'y'), builtins.str:'dtype': "
                                       "builtins.str:'int64', builtins.str:'attrs': "
                                       "dict{builtins.str:'b': builtins.str:'abc'}, "
                                       "builtins.str:'encoding': dict{}, builtins.str:'data-type': "
                                       "builtins.str:'ndarray', builtins.str:'values': "
                                       'ndarray[<i8|(3, '
                                       '4)|00000000000000000100000000000000020000000000000003000000000000000400000000000000050000000000000006000000000000000700000000000000080000000000000009000000000000000a000000000000000b00000000000000]}}, '
                                       "builtins.str:'attrs': dict{builtins.str:'chunked_with': "
                                       'builtins.str:"(({\'x\': \'auto\'},), {})"}, '
                                       "builtins.str:'encoding': dict{}}, "
                                       'builtins.str:"[([\'c\', \'d\'], ({\'x\': \'auto\'},), '
                                       '{})]", builtins.bool:True)',
 'tree-recorded|coords-list|mixed': "list(dict{builtins.str:'type': builtins.str:'DataTree', "
                                    "builtins.str:'name': builtins.NoneType:None, "
                                    "builtins.str:'paths': list(builtins.str:'/'), "
                                    "builtins.str:'nodes': dict{builtins.str:'/': "
                                    "dict{builtins.str:'type': builtins.str:'Dataset', "
                                    "builtins.str:'sizes': dict{builtins.str:'x': builtins.int:3, "
                                    "builtins.str:'y': builtins.int:4}, builtins.str:'data_vars': "
                                    "dict{builtins.str:'c': dict{builtins.str:'dims': "
                                    "tuple(builtins.str:'x'), builtins.str:'dtype': "
                                    "builtins.str:'int8', builtins.str:'attrs': "
                                    "dict{builtins.str:'a': builtins.int:1}, "
                                    "builtins.str:'encoding': dict{}, builtins.str:'data-type': "
                                    "builtins.str:'ndarray', builtins.str:'values': "
                                    "ndarray[|i1|(3,)|010203]}}, builtins.str:'coords': "
                                    "dict{builtins.str:'d': dict{builtins.str:'dims': "
                                    "tuple(builtins.str:'x', builtins.str:'y'), "
                                    "builtins.str:'dtype': builtins.str:'int64', "
                                    "builtins.str:'attrs': dict{builtins.str:'b': "
                                    "builtins.str:'abc'}, builtins.str:'encoding': dict{}, "
                                    "builtins.str:'data-type': builtins.str:'ndarray', "
                                    "builtins.str:'values': ndarray[<i8|(3, "
                                    '4)|00000000000000000100000000000000020000000000000003000000000000000400000000000000050000000000000006000000000000000700000000000000080000000000000009000000000000000a000000000000000b00000000000000]}}, '
                                    "builtins.str:'attrs': dict{builtins.str:'chunked_with': "
                                    'builtins.str:"(({\'x\': \'auto\'},), {})"}, '
                                    'builtins.str:\'encoding\': dict{}}}}, builtins.str:"[([\'c\', '
                                    "'d'], ({'x': 'auto'},), {}), (['c', 'd'], ({'x': 'auto'},), "
                                    '{})]", builtins.bool:True)',
 'dataset|coords-list|int': "list(raise builtins.AttributeError: 'int' object has no attribute "
                            "'items', builtins.str:'None', builtins.bool:True)",
 'tree|coords-list|int': "list(raise builtins.AttributeError: 'int' object has no attribute "
                         "'items', builtins.str:'None', builtins.bool:True)",
 'dataset-recorded|coords-list|int': "list(raise builtins.AttributeError: 'int' object has no "
                                     "attribute 'items', builtins.str:'[]', builtins.bool:True)",
 'tree-recorded|coords-list|int': "list(raise builtins.AttributeError: 'int' object has no "
                                  "attribute 'items', builtins.str:'[]', builtins.bool:True)",
 'dataset|coords-list|str': "list(raise builtins.AttributeError: 'str' object has no attribute "
                            "'items', builtins.str:'None', builtins.bool:True)",
 'tree|coords-list|str': "list(raise builtins.AttributeError: 'str' object has no attribute "
                         "'items', builtins.str:'None', builtins.bool:True)",
 'dataset-recorded|coords-list|str': "list(raise builtins.AttributeError: 'str' object has no "
                                     "attribute 'items', builtins.str:'[]', builtins.bool:True)",
 'tree-recorded|coords-list|str': "list(raise builtins.AttributeError: 'str' object has no "
                                  "attribute 'items', builtins.str:'[]', builtins.bool:True)",
 'dataset|coords-list|list': "list(raise builtins.AttributeError: 'list' object has no attribute "
                             "'items', builtins.str:'None', builtins.bool:True)",
 'tree|coords-list|list': "list(raise builtins.AttributeError: 'list' object has no attribute "
                          "'items', builtins.str:'None', builtins.bool:True)",
 'dataset-recorded|coords-list|list': "list(raise builtins.AttributeError: 'list' object has no "
                                      "attribute 'items', builtins.str:'[]', builtins.bool:True)",
 'tree-recorded|coords-list|list': "list(raise builtins.AttributeError: 'list' object has no "
                                   "attribute 'items', builtins.str:'[]', builtins.bool:True)",
 'dataset|coords-list|tuple-keys': "list(raise builtins.ImportError: chunk manager 'dask' is not "
                                   "available. Please make sure 'dask' is installed and "
                                   "importable., builtins.str:'None', builtins.bool:True)",
 'tree|coords-list|tuple-keys': "list(raise builtins.ImportError: chunk manager 'dask' is not "
                                "available. Please make sure 'dask' is installed and importable., "
                                "builtins.str:'None', builtins.bool:True)",
 'dataset-recorded|coords-list|tuple-keys': "list(dict{builtins.str:'type': "
                                            "builtins.str:'Dataset', builtins.str:'sizes': "
                                            "dict{builtins.str:'x': builtins.int:3, "
                                            "builtins.str:'y': builtins.int:4}, "
                                            "builtins.str:'data_vars': dict{builtins.str:'c': "
                                            "dict{builtins.str:'dims': tuple(builtins.str:'x'), "
                                            "builtins.str:'dtype': builtins.str:'int8', "
                                            "builtins.str:'attrs': dict{builtins.str:'a': "
                                            "builtins.int:1}, builtins.str:'encoding': dict{}, "
                                            "builtins.str:'data-type': builtins.str:'ndarray', "
                                            "builtins.str:'values': ndarray[|i1|(3,)|010203]}}, "
                                            "builtins.str:'coords': dict{builtins.str:'d': "
                                            "dict{builtins.str:'dims': tuple(builtins.str:'x', "
                                            "builtins.str:'y'), builtins.str:'dtype': "
                                            "builtins.str:'int64', builtins.str:'attrs': "
                                            "dict{builtins.str:'b': builtins.str:'abc'}, "
                                            "builtins.str:'encoding': dict{}, "
                                            "builtins.str:'data-type': builtins.str:'ndarray', "
                                            "builtins.str:'values': ndarray[<i8|(3, "
                                            '4)|00000000000000000100000000000000020000000000000003000000000000000400000000000000050000000000000006000000000000000700000000000000080000000000000009000000000000000a000000000000000b00000000000000]}}, '
                                            "builtins.str:'attrs': "
                                            "dict{builtins.str:'chunked_with': "
                                            "builtins.str:'(({},), {})'}, builtins.str:'encoding': "
                                            'dict{}}, builtins.str:"[([\'c\', \'d\'], ({},), '
                                            '{})]", builtins.bool:True)',
 'tree-recorded|coords-list|tuple-keys': "list(dict{builtins.str:'type': builtins.str:'DataTree', "
                                         "builtins.str:'name': builtins.NoneType:None, "
                                         "builtins.str:'paths': list(builtins.str:'/'), "
                                         "builtins.str:'nodes': dict{builtins.str:'/': "
                                         "dict{builtins.str:'type': builtins.str:'Dataset', "
                                         "builtins.str:'sizes': dict{builtins.str:'x': "
                                         "builtins.int:3, builtins.str:'y': builtins.int:4}, "
                                         "builtins.str:'data_vars': dict{builtins.str:'c': "
                                         "dict{builtins.str:'dims': tuple(builtins.str:'x'), "
                                         "builtins.str:'dtype': builtins.str:'int8', "
                                         "builtins.str:'attrs': dict{builtins.str:'a': "
                                         "builtins.int:1}, builtins.str:'encoding': dict{}, "
                                         "builtins.str:'data-type': builtins.str:'ndarray', "
                                         "builtins.str:'values': ndarray[|i1|(3,)|010203]}}, "
                                         "builtins.str:'coords': dict{builtins.str:'d': "
                                         "dict{builtins.str:'dims': tuple(builtins.str:'x', "
                                         "builtins.str:'y'), builtins.str:'dtype': "
                                         "builtins.str:'int64', builtins.str:'attrs': "
                                         "dict{builtins.str:'b': builtins.str:'abc'}, "
                                         "builtins.str:'encoding': dict{}, "
                                         "builtins.str:'data-type': builtins.str:'ndarray', "
                                         "builtins.str:'values': ndarray[<i8|(3, "
                                         '4)|00000000000000000100000000000000020000000000000003000000000000000400000000000000050000000000000006000000000000000700000000000000080000000000000009000000000000000a000000000000000b00000000000000]}}, '
                                         "builtins.str:'attrs': dict{builtins.str:'chunked_with': "
                                         "builtins.str:'(({},), {})'}, builtins.str:'encoding': "
                                         'dict{}}}}, builtins.str:"[([\'c\', \'d\'], ({},), {}), '
                                         '([\'c\', \'d\'], ({},), {})]", builtins.bool:True)',
 'dataset|coords-all|none': "list(dict{builtins.str:'type': builtins.str:'Dataset', "
                            "builtins.str:'sizes': dict{builtins.str:'x': builtins.int:3, "
                            "builtins.str:'y': builtins.int:4}, builtins.str:'data_vars': dict{}, "
                            "builtins.str:'coords': dict{builtins.str:'c': "
                            "dict{builtins.str:'dims': tuple(builtins.str:'x'), "
                            "builtins.str:'dtype': builtins.str:'int8', builtins.str:'attrs': "
                            "dict{builtins.str:'a': builtins.int:1}, builtins.str:'encoding': "
                            "dict{}, builtins.str:'data-type': builtins.str:'ndarray', "
                            "builtins.str:'values': ndarray[|i1|(3,)|010203]}, builtins.str:'d': "
                            "dict{builtins.str:'dims': tuple(builtins.str:'x', builtins.str:'y'), "
                            "builtins.str:'dtype': builtins.str:'int64', builtins.str:'attrs': "
                            "dict{builtins.str:'b': builtins.str:'abc'}, builtins.str:'encoding': "
                            "dict{}, builtins.str:'data-type': builtins.str:'ndarray', "
                            "builtins.str:'values': ndarray[<i8|(3, "
                            '4)|00000000000000000100000000000000020000000000000003000000000000000400000000000000050000000000000006000000000000000700000000000000080000000000000009000000000000000a000000000000000b00000000000000]}, '
                            "builtins.str:'e': dict{builtins.str:'dims': tuple(builtins.str:'y'), "
                            "builtins.str:'dtype': builtins.str:'float64', builtins.str:'attrs': "
                            "dict{}, builtins.str:'encoding': dict{}, builtins.str:'data-type': "
                            "builtins.str:'ndarray', builtins.str:'values': "
                            'ndarray[<f8|(4,)|000000000000e03f000000000000f83f00000000000004400000000000000c40]}}, '
                            "builtins.str:'attrs': dict{builtins.str:'title': builtins.str:'x'}, "
                            "builtins.str:'encoding': dict{}}, builtins.str:'None', "
                            'builtins.bool:True)',
 'tree|coords-all|none': "list(dict{builtins.str:'type': builtins.str:'DataTree', "
                         "builtins.str:'name': builtins.NoneType:None, builtins.str:'paths': "
                         "list(builtins.str:'/'), builtins.str:'nodes': dict{builtins.str:'/': "
                         "dict{builtins.str:'type': builtins.str:'Dataset', builtins.str:'sizes': "
                         "dict{builtins.str:'x': builtins.int:3, builtins.str:'y': "
                         "builtins.int:4}, builtins.str:'data_vars': dict{}, "
                         "builtins.str:'coords': dict{builtins.str:'c': dict{builtins.str:'dims': "
                         "tuple(builtins.str:'x'), builtins.str:'dtype': builtins.str:'int8', "
                         "builtins.str:'attrs': dict{builtins.str:'a': builtins.int:1}, "
                         "builtins.str:'encoding': dict{}, builtins.str:'data-type': "
                         "builtins.str:'ndarray', builtins.str:'values': "
                         "ndarray[|i1|(3,)|010203]}, builtins.str:'d': dict{builtins.str:'dims': "
                         "tuple(builtins.str:'x', builtins.str:'y'), builtins.str:'dtype': "
                         "builtins.str:'int64', builtins.str:'attrs': dict{builtins.str:'b': "
                         "builtins.str:'abc'}, builtins.str:'encoding': dict{}, "
                         "builtins.str:'data-type': builtins.str:'ndarray', builtins.str:'values': "
                         'ndarray[<i8|(3, '
                         '4)|00000000000000000100000000000000020000000000000003000000000000000400000000000000050000000000000006000000000000000700000000000000080000000000000009000000000000000a000000000000000b00000000000000]}, '
                         "builtins.str:'e': dict{builtins.str:'dims': tuple(builtins.str:'y'), "
                         "builtins.str:'dtype': builtins.str:'float64', builtins.str:'attrs': "
                         "dict{}, builtins.str:'encoding': dict{}, builtins.str:'data-type': "
                         "builtins.str:'ndarray', builtins.str:'values': "
                         'ndarray[<f8|(4,)|000000000000e03f000000000000f83f00000000000004400000000000000c40]}}, '
                         "builtins.str:'attrs': dict{builtins.str:'title': builtins.str:'x'}, "
                         "builtins.str:'encoding': dict{}}}}, builtins.str:'None', "
                         'builtins.bool:True)',
 'dataset|coords-all|empty': "list(raise builtins.ImportError: chunk manager 'dask' is not "
                             "available. Please make sure 'dask' is installed and importable., "
                             "builtins.str:'None', builtins.bool:True)",
 'tree|coords-all|empty': "list(raise builtins.ImportError: chunk manager 'dask' is not available. "
                          "Please make sure 'dask' is installed and importable., "
                          "builtins.str:'None', builtins.bool:True)",
 'dataset-recorded|coords-all|empty': "list(dict{builtins.str:'type': builtins.str:'Dataset', "
                                      "builtins.str:'sizes': dict{builtins.str:'x': "
                                      "builtins.int:3, builtins.str:'y': builtins.int:4}, "
                                      "builtins.str:'data_vars': dict{}, builtins.str:'coords': "
                                      "dict{builtins.str:'c': dict{builtins.str:'dims': "
                                      "tuple(builtins.str:'x'), builtins.str:'dtype': "
                                      "builtins.str:'int8', builtins.str:'attrs': "
                                      "dict{builtins.str:'a': builtins.int:1}, "
                                      "builtins.str:'encoding': dict{}, builtins.str:'data-type': "
                                      "builtins.str:'ndarray', builtins.str:'values': "
                                      "ndarray[|i1|(3,)|010203]}, builtins.str:'d': "
                                      "dict{builtins.str:'dims': tuple(builtins.str:'x', "
                                      "builtins.str:'y'), builtins.str:'dtype': "
                                      "builtins.str:'int64', builtins.str:'attrs': "
                                      "dict{builtins.str:'b': builtins.str:'abc'}, "
                                      "builtins.str:'encoding': dict{}, builtins.str:'data-type': "
                                      "builtins.str:'ndarray', builtins.str:'values': "
                                      'ndarray[<i8|(3, '
                                      '4)|00000000000000000100000000000000020000000000000003000000000000000400000000000000050000000000000006000000000000000700000000000000080000000000000009000000000000000a000000000000000b00000000000000]}, '
                                      "builtins.str:'e': dict{builtins.str:'dims': "
                                      "tuple(builtins.str:'y'), builtins.str:'dtype': "
                                      "builtins.str:'float64', builtins.str:'attrs': dict{}, "
                                      "builtins.str:'encoding': dict{}, builtins.str:'data-type': "
                                      "builtins.str:'ndarray', builtins.str:'values': "
                                      'ndarray[<f8|(4,)|000000000000e03f000000000000f83f00000000000004400000000000000c40]}}, '
                                      "builtins.str:'attrs': dict{builtins.str:'title': "
                                      "builtins.str:'x', builtins.str:'chunked_with': "
                                      "builtins.str:'(({},), {})'}, builtins.str:'encoding': "
                                      'dict{}}, builtins.str:"[([\'c\', \'d\', \'e\'], ({},), '
                                      '{})]", builtins.bool:True)',
 'tree-recorded|coords-all|empty': "list(dict{builtins.str:'type': builtins.str:'DataTree', "
                                   "builtins.str:'name': builtins.NoneType:None, "
                                   "builtins.str:'paths': list(builtins.str:'/'), "
                                   "builtins.str:'nodes': dict{builtins.str:'/': "
                                   "dict{builtins.str:'type': builtins.str:'Dataset', "
                                   "builtins.str:'sizes': dict{builtins.str:'x': builtins.int:3, "
                                   "builtins.str:'y': builtins.int:4}, builtins.str:'data_vars': "
                                   "dict{}, builtins.str:'coords': dict{builtins.str:'c': "
                                   "dict{builtins.str:'dims': tuple(builtins.str:'x'), "
                                   "builtins.str:'dtype': builtins.str:'int8', "
                                   "builtins.str:'attrs': dict{builtins.str:'a': builtins.int:1}, "
                                   "builtins.str:'encoding': dict{}, builtins.str:'data-type': "
                                   "builtins.str:'ndarray', builtins.str:'values': "
                                   "ndarray[|i1|(3,)|010203]}, builtins.str:'d': "
                                   "dict{builtins.str:'dims': tuple(builtins.str:'x', "
                                   "builtins.str:'y'), builtins.str:'dtype': builtins.str:'int64', "
                                   "builtins.str:'attrs': dict{builtins.str:'b': "
                                   "builtins.str:'abc'}, builtins.str:'encoding': dict{}, "
                                   "builtins.str:'data-type': builtins.str:'ndarray', "
                                   "builtins.str:'values': ndarray[<i8|(3, "
                                   '4)|00000000000000000100000000000000020000000000000003000000000000000400000000000000050000000000000006000000000000000700000000000000080000000000000009000000000000000a000000000000000b00000000000000]}, '
                                   "builtins.str:'e': dict{builtins.str:'dims': "
                                   "tuple(builtins.str:'y'), builtins.str:'dtype': "
                                   "builtins.str:'float64', builtins.str:'attrs': dict{}, "
                                   "builtins.str:'encoding': dict{}, builtins.str:'data-type': "
                                   "builtins.str:'ndarray', builtins.str:'values': "
                                   'ndarray[<f8|(4,)|000000000000e03f000000000000f83f00000000000004400000000000000c40]}}, '
                                   "builtins.str:'attrs': dict{builtins.str:'title': "
                                   "builtins.str:'x', builtins.str:'chunked_with': "
                                   "builtins.str:'(({},), {})'}, builtins.str:'encoding': "
                                   'dict{}}}}, builtins.str:"[([\'c\', \'d\', \'e\'], ({},), {}), '
                                   '([\'c\', \'d\', \'e\'], ({},), {})]", builtins.bool:True)',
 'dataset|coords-all|x': "list(raise builtins.ImportError: chunk manager 'dask' is not available. "
                         "Please make sure 'dask' is installed and importable., "
                         "builtins.str:'None', builtins.bool:True)",
 'tree|coords-all|x': "list(raise builtins.ImportError: chunk manager 'dask' is not available. "
                      "Please make sure 'dask' is installed and importable., builtins.str:'None', "
                      'builtins.bool:True)',
 'dataset-recorded|coords-all|x': "list(dict{builtins.str:'type': builtins.str:'Dataset', "
                                  "builtins.str:'sizes': dict{builtins.str:'x': builtins.int:3, "
                                  "builtins.str:'y': builtins.int:4}, builtins.str:'data_vars': "
                                  "dict{}, builtins.str:'coords': dict{builtins.str:'c': "
                                  "dict{builtins.str:'dims': tuple(builtins.str:'x'), "
                                  "builtins.str:'dtype': builtins.str:'int8', "
                                  "builtins.str:'attrs': dict{builtins.str:'a': builtins.int:1}, "
                                  "builtins.str:'encoding': dict{}, builtins.str:'data-type': "
                                  "builtins.str:'ndarray', builtins.str:'values': "
                                  "ndarray[|i1|(3,)|010203]}, builtins.str:'d': "
                                  "dict{builtins.str:'dims': tuple(builtins.str:'x', "
                                  "builtins.str:'y'), builtins.str:'dtype': builtins.str:'int64', "
                                  "builtins.str:'attrs': dict{builtins.str:'b': "
                                  "builtins.str:'abc'}, builtins.str:'encoding': dict{}, "
                                  "builtins.str:'data-type': builtins.str:'ndarray', "
                                  "builtins.str:'values': ndarray[<i8|(3, "
                                  '4)|00000000000000000100000000000000020000000000000003000000000000000400000000000000050000000000000006000000000000000700000000000000080000000000000009000000000000000a000000000000000b00000000000000]}, '
                                  "builtins.str:'e': dict{builtins.str:'dims': "
                                  "tuple(builtins.str:'y'), builtins.str:'dtype': "
                                  "builtins.str:'float64', builtins.str:'attrs': dict{}, "
                                  "builtins.str:'encoding': dict{}, builtins.str:'data-type': "
                                  "builtins.str:'ndarray', builtins.str:'values': "
                                  'ndarray[<f8|(4,)|000000000000e03f000000000000f83f00000000000004400000000000000c40]}}, '
                                  "builtins.str:'attrs': dict{builtins.str:'title': "
                                  "builtins.str:'x', builtins.str:'chunked_with': "
                                  'builtins.str:"(({\'x\': 1},), {})"}, builtins.str:\'encoding\': '
                                  'dict{}}, builtins.str:"[([\'c\', \'d\', \'e\'], ({\'x\': 1},), '
                                  '{})]", builtins.bool:True)',
 'tree-recorded|coords-all|x': "list(dict{builtins.str:'type': builtins.str:'DataTree', "
                               "builtins.str:'name': builtins.NoneType:None, builtins.str:'paths': "
                               "list(builtins.str:'/'), builtins.str:'nodes': "
                               "dict{builtins.str:'/': dict{builtins.str:'type': "
                               "builtins.str:'Dataset', builtins.str:'sizes': "
                               "dict{builtins.str:'x': builtins.int:3, builtins.str:'y': "
                               "builtins.int:4}, builtins.str:'data_vars': dict{}, "
                               "builtins.str:'coords': dict{builtins.str:'c': "
                               "dict{builtins.str:'dims': tuple(builtins.str:'x'), "
                               "builtins.str:'dtype': builtins.str:'int8', builtins.str:'attrs': "
                               "dict{builtins.str:'a': builtins.int:1}, builtins.str:'encoding': "
                               "dict{}, builtins.str:'data-type': builtins.str:'ndarray', "
                               "builtins.str:'values': ndarray[|i1|(3,)|010203]}, "
                               "builtins.str:'d': dict{builtins.str:'dims': "
                               "tuple(builtins.str:'x', builtins.str:'y'), builtins.str:'dtype': "
                               "builtins.str:'int64', builtins.str:'attrs': dict{builtins.str:'b': "
                               "builtins.str:'abc'}, builtins.str:'encoding': dict{}, "
                               "builtins.str:'data-type': builtins.str:'ndarray', "
                               "builtins.str:'values': ndarray[<i8|(3, "
                               '4)|00000000000000000100000000000000020000000000000003000000000000000400000000000000050000000000000006000000000000000700000000000000080000000000000009000000000000000a000000000000000b00000000000000]}, '
                               "builtins.str:'e': dict{builtins.str:'dims': "
                               "tuple(builtins.str:'y'), builtins.str:'dtype': "
                               "builtins.str:'float64', builtins.str:'attrs': dict{}, "
                               "builtins.str:'encoding': dict{}, builtins.str:'data-type': "
                               "builtins.str:'ndarray', builtins.str:'values': "
                               'ndarray[<f8|(4,)|000000000000e03f000000000000f83f00000000000004400000000000000c40]}}, '
                               "builtins.str:'attrs': dict{builtins.str:'title': builtins.str:'x', "
                               'builtins.str:\'chunked_with\': builtins.str:"(({\'x\': 1},), '
                               '{})"}, builtins.str:\'encoding\': dict{}}}}, '
                               'builtins.str:"[([\'c\', \'d\', \'e\'], ({\'x\': 1},), {}), '
                               '([\'c\', \'d\', \'e\'], ({\'x\': 1},), {})]", builtins.bool:True)',
 'dataset|coords-all|xy': "list(raise builtins.ImportError: chunk manager 'dask' is not available. "
                          "Please make sure 'dask' is installed and importable., "
                          "builtins.str:'None', builtins.bool:True)",
 'tree|coords-all|xy': "list(raise builtins.ImportError: chunk manager 'dask' is not available. "
                       "Please make sure 'dask' is installed and importable., builtins.str:'None', "
                       'builtins.bool:True)',
 'dataset-recorded|coords-all|xy': "list(dict{builtins.str:'type': builtins.str:'Dataset', "
                                   "builtins.str:'sizes': dict{builtins.str:'x': builtins.int:3, "
                                   "builtins.str:'y': builtins.int:4}, builtins.str:'data_vars': "
                                   "dict{}, builtins.str:'coords': dict{builtins.str:'c': "
                                   "dict{builtins.str:'dims': tuple(builtins.str:'x'), "
                                   "builtins.str:'dtype': builtins.str:'int8', "
                                   "builtins.str:'attrs': dict{builtins.str:'a': builtins.int:1}, "
                                   "builtins.str:'encoding': dict{}, builtins.str:'data-type': "
                                   "builtins.str:'ndarray', builtins.str:'values': "
                                   "ndarray[|i1|(3,)|010203]}, builtins.str:'d': "
                                   "dict{builtins.str:'dims': tuple(builtins.str:'x', "
                                   "builtins.str:'y'), builtins.str:'dtype': builtins.str:'int64', "
                                   "builtins.str:'attrs': dict{builtins.str:'b': "
                                   "builtins.str:'abc'}, builtins.str:'encoding': dict{}, "
                                   "builtins.str:'data-type': builtins.str:'ndarray', "
                                   "builtins.str:'values': ndarray[<i8|(3, "
                                   '4)|00000000000000000100000000000000020000000000000003000000000000000400000000000000050000000000000006000000000000000700000000000000080000000000000009000000000000000a000000000000000b00000000000000]}, '
                                   "builtins.str:'e': dict{builtins.str:'dims': "
                                   "tuple(builtins.str:'y'), builtins.str:'dtype': "
                                   "builtins.str:'float64', builtins.str:'attrs': dict{}, "
                                   "builtins.str:'encoding': dict{}, builtins.str:'data-type': "
                                   "builtins.str:'ndarray', builtins.str:'values': "
                                   'ndarray[<f8|(4,)|000000000000e03f000000000000f83f00000000000004400000000000000c40]}}, '
                                   "builtins.str:'attrs': dict{builtins.str:'title': "
                                   "builtins.str:'x', builtins.str:'chunked_with': "
                                   'builtins.str:"(({\'x\': 1, \'y\': 2},), {})"}, '
                                   'builtins.str:\'encoding\': dict{}}, builtins.str:"[([\'c\', '
                                   '\'d\', \'e\'], ({\'x\': 1, \'y\': 2},), {})]", '
                                   'builtins.bool:True)',
 'tree-recorded|coords-all|xy': "list(dict{builtins.str:'type': builtins.str:'DataTree', "
                                "builtins.str:'name': builtins.NoneType:None, "
                                "builtins.str:'paths': list(builtins.str:'/'), "
                                "builtins.str:'nodes': dict{builtins.str:'/': "
                                "dict{builtins.str:'type': builtins.str:'Dataset', "
                                "builtins.str:'sizes': dict{builtins.str:'x': builtins.int:3, "
                                "builtins.str:'y': builtins.int:4}, builtins.str:'data_vars': "
                                "dict{}, builtins.str:'coords': dict{builtins.str:'c': "
                                "dict{builtins.str:'dims': tuple(builtins.str:'x'), "
                                "builtins.str:'dtype': builtins.str:'int8', builtins.str:'attrs': "
                                "dict{builtins.str:'a': builtins.int:1}, builtins.str:'encoding': "
                                "dict{}, builtins.str:'data-type': builtins.str:'ndarray', "
                                "builtins.str:'values': ndarray[|i1|(3,)|010203]}, "
                                "builtins.str:'d': dict{builtins.str:'dims': "
                                "tuple(builtins.str:'x', builtins.str:'y'), builtins.str:'dtype': "
                                "builtins.str:'int64', builtins.str:'attrs': "
                                "dict{builtins.str:'b': builtins.str:'abc'}, "
                                "builtins.str:'encoding': dict{}, builtins.str:'data-type': "
                                "builtins.str:'ndarray', builtins.str:'values': ndarray[<i8|(3, "
                                '4)|00000000000000000100000000000000020000000000000003000000000000000400000000000000050000000000000006000000000000000700000000000000080000000000000009000000000000000a000000000000000b00000000000000]}, '
                                "builtins.str:'e': dict{builtins.str:'dims': "
                                "tuple(builtins.str:'y'), builtins.str:'dtype': "
                                "builtins.str:'float64', builtins.str:'attrs': dict{}, "
                                "builtins.str:'encoding': dict{}, builtins.str:'data-type': "
                                "builtins.str:'ndarray', builtins.str:'values': "
                                'ndarray[<f8|(4,)|000000000000e03f000000000000f83f00000000000004400000000000000c40]}}, '
                                "builtins.str:'attrs': dict{builtins.str:'title': "
                                "builtins.str:'x', builtins.str:'chunked_with': "
                                'builtins.str:"(({\'x\': 1, \'y\': 2},), {})"}, '
                                'builtins.str:\'encoding\': dict{}}}}, builtins.str:"[([\'c\', '
                                "'d', 'e'], ({'x': 1, 'y': 2},), {}), (['c', 'd', 'e'], ({'x': 1, "
                                '\'y\': 2},), {})]", builtins.bool:True)',
 'dataset|coords-all|yx': "list(raise builtins.ImportError: chunk manager 'dask' is not available. "
                          "Please make sure 'dask' is installed and importable., "
                          "builtins.str:'None', builtins.bool:True)",
 'tree|coords-all|yx': "list(raise builtins.ImportError: chunk manager 'dask' is not available. "
                       "Please make sure 'dask' is installed and importable., builtins.str:'None', "
                       'builtins.bool:True)',
 'dataset-recorded|coords-all|yx': "list(dict{builtins.str:'type': builtins.str:'Dataset', "
                                   "builtins.str:'sizes': dict{builtins.str:'x': builtins.int:3, "
                                   "builtins.str:'y': builtins.int:4}, builtins.str:'data_vars': "
                                   "dict{}, builtins.str:'coords': dict{builtins.str:'c': "
                                   "dict{builtins.str:'dims': tuple(builtins.str:'x'), "
                                   "builtins.str:'dtype': builtins.str:'int8', "
                                   "builtins.str:'attrs': dict{builtins.str:'a': builtins.int:1}, "
                                   "builtins.str:'encoding': dict{}, builtins.str:'data-type': "
                                   "builtins.str:'ndarray', builtins.str:'values': "
                                   "ndarray[|i1|(3,)|010203]}, builtins.str:'d': "
                                   "dict{builtins.str:'dims': tuple(builtins.str:'x', "
                                   "builtins.str:'y'), builtins.str:'dtype': builtins.str:'int64', "
                                   "builtins.str:'attrs': dict{builtins.str:'b': "
                                   "builtins.str:'abc'}, builtins.str:'encoding': dict{}, "
                                   "builtins.str:'data-type': builtins.str:'ndarray', "
                                   "builtins.str:'values': ndarray[<i8|(3, "
                                   '4)|00000000000000000100000000000000020000000000000003000000000000000400000000000000050000000000000006000000000000000700000000000000080000000000000009000000000000000a000000000000000b00000000000000]}, '
                                   "builtins.str:'e': dict{builtins.str:'dims': "
                                   "tuple(builtins.str:'y'), builtins.str:'dtype': "
                                   "builtins.str:'float64', builtins.str:'attrs': dict{}, "
                                   "builtins.str:'encoding': dict{}, builtins.str:'data-type': "
                                   "builtins.str:'ndarray', builtins.str:'values': "
                                   'ndarray[<f8|(4,)|000000000000e03f000000000000f83f00000000000004400000000000000c40]}}, '
                                   "builtins.str:'attrs': dict{builtins.str:'title': "
                                   "builtins.str:'x', builtins.str:'chunked_with': "
                                   'builtins.str:"(({\'y\': 2, \'x\': -1},), {})"}, '
                                   'builtins.str:\'encoding\': dict{}}, builtins.str:"[([\'c\', '
                                   '\'d\', \'e\'], ({\'y\': 2, \'x\': -1},), {})]", '
                                   'builtins.bool:True)',
 'tree-recorded|coords-all|yx': "list(dict{builtins.str:'type': builtins.str:'DataTree', "
                                "builtins.str:'name': builtins.NoneType:None, "
                                "builtins.str:'paths': list(builtins.str:'/'), "
                                "builtins.str:'nodes': dict{builtins.str:'/': "
                                "dict{builtins.str:'type': builtins.str:'Dataset', "
                                "builtins.str:'sizes': dict{builtins.str:'x': builtins.int:3, "
                                "builtins.str:'y': builtins.int:4}, builtins.str:'data_vars': "
                                "dict{}, builtins.str:'coords': dict{builtins.str:'c': "
                                "dict{builtins.str:'dims': tuple(builtins.str:'x'), "
                                "builtins.str:'dtype': builtins.str:'int8', builtins.str:'attrs': "
                                "dict{builtins.str:'a': builtins.int:1}, builtins.str:'encoding': "
                                "dict{}, builtins.str:'data-type': builtins.str:'ndarray', "
                                "builtins.str:'values': ndarray[|i1|(3,)|010203]}, "
                                "builtins.str:'d': dict{builtins.str:'dims': "
                                "tuple(builtins.str:'x', builtins.str:'y'), builtins.str:'dtype': "
                                "builtins.str:'int64', builtins.str:'attrs': "
                                "dict{builtins.str:'b': builtins.str:'abc'}, "
                                "builtins.str:'encoding': dict{}, builtins.str:'data-type': "
                                "builtins.str:'ndarray', builtins.str:'values': ndarray[<i8|(3, "
                                '4)|00000000000000000100000000000000020000000000000003000000000000000400000000000000050000000000000006000000000000000700000000000000080000000000000009000000000000000a000000000000000b00000000000000]}, '
                                "builtins.str:'e': dict{builtins.str:'dims': "
                                "tuple(builtins.str:'y'), builtins.str:'dtype': "
                                "builtins.str:'float64', builtins.str:'attrs': dict{}, "
                                "builtins.str:'encoding': dict{}, builtins.str:'data-type': "
                                "builtins.str:'ndarray', builtins.str:'values': "
                                'ndarray[<f8|(4,)|000000000000e03f000000000000f83f00000000000004400000000000000c40]}}, '
                                "builtins.str:'attrs': dict{builtins.str:'title': "
                                "builtins.str:'x', builtins.str:'chunked_with': "
                                'builtins.str:"(({\'y\': 2, \'x\': -1},), {})"}, '
                                'builtins.str:\'encoding\': dict{}}}}, builtins.str:"[([\'c\', '
                                "'d', 'e'], ({'y': 2, 'x': -1},), {}), (['c', 'd', 'e'], ({'y': 2, "
                                '\'x\': -1},), {})]", builtins.bool:True)',
 'dataset|coords-all|unknown': "list(raise builtins.ImportError: chunk manager 'dask' is not "
                               "available. Please make sure 'dask' is installed and importable., "
                               "builtins.str:'None', builtins.bool:True)",
 'tree|coords-all|unknown': "list(raise builtins.ImportError: chunk manager 'dask' is not "
                            "available. Please make sure 'dask' is installed and importable., "
                            "builtins.str:'None', builtins.bool:True)",
 'dataset-recorded|coords-all|unknown': "list(dict{builtins.str:'type': builtins.str:'Dataset', "
                                        "builtins.str:'sizes': dict{builtins.str:'x': "
                                        "builtins.int:3, builtins.str:'y': builtins.int:4}, "
                                        "builtins.str:'data_vars': dict{}, builtins.str:'coords': "
                                        "dict{builtins.str:'c': dict{builtins.str:'dims': "
                                        "tuple(builtins.str:'x'), builtins.str:'dtype': "
                                        "builtins.str:'int8', builtins.str:'attrs': "
                                        "dict{builtins.str:'a': builtins.int:1}, "
                                        "builtins.str:'encoding': dict{}, "
                                        "builtins.str:'data-type': builtins.str:'ndarray', "
                                        "builtins.str:'values': ndarray[|i1|(3,)|010203]}, "
                                        "builtins.str:'d': dict{builtins.str:'dims': "
                                        "tuple(builtins.str:'x', builtins.str:'y'), "
                                        "builtins.str:'dtype': builtins.str:'int64', "
                                        "builtins.str:'attrs': dict{builtins.str:'b': "
                                        "builtins.str:'abc'}, builtins.str:'encoding': dict{}, "
                                        "builtins.str:'data-type': builtins.str:'ndarray', "
                                        "builtins.str:'values': ndarray[<i8|(3, "
                                        '4)|00000000000000000100000000000000020000000000000003000000000000000400000000000000050000000000000006000000000000000700000000000000080000000000000009000000000000000a000000000000000b00000000000000]}, '
                                        "builtins.str:'e': dict{builtins.str:'dims': "
                                        "tuple(builtins.str:'y'), builtins.str:'dtype': "
                                        "builtins.str:'float64', builtins.str:'attrs': dict{}, "
                                        "builtins.str:'encoding': dict{}, "
                                        "builtins.str:'data-type': builtins.str:'ndarray', "
                                        "builtins.str:'values': "
                                        'ndarray[<f8|(4,)|000000000000e03f000000000000f83f00000000000004400000000000000c40]}}, '
                                        "builtins.str:'attrs': dict{builtins.str:'title': "
                                        "builtins.str:'x', builtins.str:'chunked_with': "
                                        "builtins.str:'(({},), {})'}, builtins.str:'encoding': "
                                        'dict{}}, builtins.str:"[([\'c\', \'d\', \'e\'], ({},), '
                                        '{})]", builtins.bool:True)',
 'tree-recorded|coords-all|unknown': "list(dict{builtins.str:'type': builtins.str:'DataTree', "
                                     "builtins.str:'name': builtins.NoneType:None, "
                                     "builtins.str:'paths': list(builtins.str:'/'), "
                                     "builtins.str:'nodes': dict{builtins.str:'/': "
                                     "dict{builtins.str:'type': builtins.str:'Dataset', "
                                     "builtins.str:'sizes': dict{builtins.str:'x': builtins.int:3, "
                                     "builtins.str:'y': builtins.int:4}, builtins.str:'data_vars': "
                                     "dict{}, builtins.str:'coords': dict{builtins.str:'c': "
                                     "dict{builtins.str:'dims': tuple(builtins.str:'x'), "
                                     "builtins.str:'dtype': builtins.str:'int8', "
                                     "builtins.str:'attrs': dict{builtins.str:'a': "
                                     "builtins.int:1}, builtins.str:'encoding': dict{}, "
                                     "builtins.str:'data-type': builtins.str:'ndarray', "
                                     "builtins.str:'values': ndarray[|i1|(3,)|010203]}, "
                                     "builtins.str:'d': dict{builtins.str:'dims': "
                                     "tuple(builtins.str:'x', builtins.str:'y'), "
                                     "builtins.str:'dtype': builtins.str:'int64', "
                                     "builtins.str:'attrs': dict{builtins.str:'b': "
                                     "builtins.str:'abc'}, builtins.str:'encoding': dict{}, "
                                     "builtins.str:'data-type': builtins.str:'ndarray', "
                                     "builtins.str:'values': ndarray[<i8|(3, "
                                     '4)|00000000000000000100000000000000020000000000000003000000000000000400000000000000050000000000000006000000000000000700000000000000080000000000000009000000000000000a000000000000000b00000000000000]}, '
                                     "builtins.str:'e': dict{builtins.str:'dims': "
                                     "tuple(builtins.str:'y'), builtins.str:'dtype': "
                                     "builtins.str:'float64', builtins.str:'attrs': dict{}, "
                                     "builtins.str:'encoding': dict{}, builtins.str:'data-type': "
                                     "builtins.str:'ndarray', builtins.str:'values': "
                                     'ndarray[<f8|(4,)|000000000000e03f000000000000f83f00000000000004400000000000000c40]}}, '
                                     "builtins.str:'attrs': dict{builtins.str:'title': "
                                     "builtins.str:'x', builtins.str:'chunked_with': "
                                     "builtins.str:'(({},), {})'}, builtins.str:'encoding': "
                                     'dict{}}}}, builtins.str:"[([\'c\', \'d\', \'e\'], ({},), '
                                     '{}), ([\'c\', \'d\', \'e\'], ({},), {})]", '
                                     'builtins.bool:True)',
 'dataset|coords-all|mixed': "list(raise builtins.ImportError: chunk manager 'dask' is not "
                             "available. Please make sure 'dask' is installed and importable., "
                             "builtins.str:'None', builtins.bool:True)",
 'tree|coords-all|mixed': "list(raise builtins.ImportError: chunk manager 'dask' is not available. "
                          "Please make sure 'dask' is installed and importable., "
                          "builtins.str:'None', builtins.bool:True)",
 'dataset-recorded|coords-all|mixed': "list(dict{builtins.str:'type': builtins.str:'Dataset', "
                                      "builtins.str:'sizes': dict{builtins.str:'x': "
                                      "builtins.int:3, builtins.str:'y': builtins.int:4}, "
                                      "builtins.str:'data_vars': dict{}, builtins.str:'coords': "
                                      "dict{builtins.str:'c': dict{builtins.str:'dims': "
                                      "tuple(builtins.str:'x'), builtins.str:'dtype': "
                                      "builtins.str:'int8', builtins.str:'attrs': "
                                      "dict{builtins.str:'a': builtins.int:1}, "
                                      "builtins.str:'encoding': dict{}, builtins.str:'data-type': "
                                      "builtins.str:'ndarray', builtins.str:'values': "
                                      "ndarray[|i1|(3,)|010203]}, builtins.str:'d': "
                                      "dict{builtins.str:'dims': tuple(builtins.str:'x', "
                                      "builtins.str:'y'), builtins.str:'dtype': "
                                      "builtins.str:'int64', builtins.str:'attrs': "
                                      "dict{builtins.str:'b': builtins.str:'abc'}, "
                                      "builtins.str:'encoding': dict{}, builtins.str:'data-type': "
                                      "builtins.str:'ndarray', builtins.str:'values': "
                                      'ndarray[<i8|(3, '
                                      '4)|00000000000000000100000000000000020000000000000003000000000000000400000000000000050000000000000006000000000000000700000000000000080000000000000009000000000000000a000000000000000b00000000000000]}, '
                                      "builtins.str:'e': dict{builtins.str:'dims': "
                                      "tuple(builtins.str:'y'), builtins.str:'dtype': "
                                      "builtins.str:'float64', builtins.str:'attrs': dict{}, "
                                      "builtins.str:'encoding': dict{}, builtins.str:'data-type': "
                                      "builtins.str:'ndarray', builtins.str:'values': "
                                      'ndarray[<f8|(4,)|000000000000e03f000000000000f83f00000000000004400000000000000c40]}}, '
                                      "builtins.str:'attrs': dict{builtins.str:'title': "
                                      "builtins.str:'x', builtins.str:'chunked_with': "
                                      'builtins.str:"(({\'x\': \'auto\'},), {})"}, '
                                      'builtins.str:\'encoding\': dict{}}, builtins.str:"[([\'c\', '
                                      '\'d\', \'e\'], ({\'x\': \'auto\'},), {})]", '
                                      'builtins.bool:True)',
 'tree-recorded|coords-all|mixed': "list(dict{builtins.str:'type': builtins.str:'DataTree', "
                                   "builtins.str:'name': builtins.NoneType:None, "
                                   "builtins.str:'paths': list(builtins.str:'/'), "
                                   "builtins.str:'nodes': dict{builtins.str:'/': "
                                   "dict{builtins.str:'type': builtins.str:'Dataset', "
                                   "builtins.str:'sizes': dict{builtins.str:'x': builtins.int:3, "
                                   "builtins.str:'y': builtins.int:4}, builtins.str:'data_vars': "
                                   "dict{}, builtins.str:'coords': dict{builtins.str:'c': "
                                   "dict{builtins.str:'dims': tuple(builtins.str:'x'), "
                                   "builtins.str:'dtype': builtins.str:'int8', "
                                   "builtins.str:'attrs': dict{builtins.str:'a': builtins.int:1}, "
                                   "builtins.str:'encoding': dict{}, builtins.str:'data-type': "
                                   "builtins.str:'ndarray', builtins.str:'values': "
                                   "ndarray[|i1|(3,)|010203]}, builtins.str:'d': "
                                   "dict{builtins.str:'dims': tuple(builtins.str:'x', "
                                   "builtins.str:'y'), builtins.str:'dtype': builtins.str:'int64', "
                                   "builtins.str:'attrs': dict{builtins.str:'b': "
                                   "builtins.str:'abc'}, builtins.str:'encoding': dict{}, "
                                   "builtins.str:'data-type': builtins.str:'ndarray', "
                                   "builtins.str:'values': ndarray[<i8|(3, "
                                   '4)|00000000000000000100000000000000020000000000000003000000000000000400000000000000050000000000000006000000000000000700000000000000080000000000000009000000000000000a000000000000000b00000000000000]}, '
                                   "builtins.str:'e': dict{builtins.str:'dims': "
                                   "tuple(builtins.str:'y'), builtins.str:'dtype': "
                                   "builtins.str:'float64', builtins.str:'attrs': dict{}, "
                                   "builtins.str:'encoding': dict{}, builtins.str:'data-type': "
                                   "builtins.str:'ndarray', builtins.str:'values': "
                                   'ndarray[<f8|(4,)|000000000000e03f000000000000f83f00000000000004400000000000000c40]}}, '
                                   "builtins.str:'attrs': dict{builtins.str:'title': "
                                   "builtins.str:'x', builtins.str:'chunked_with': "
                                   'builtins.str:"(({\'x\': \'auto\'},), {})"}, '
                                   'builtins.str:\'encoding\': dict{}}}}, builtins.str:"[([\'c\', '
                                   "'d', 'e'], ({'x': 'auto'},), {}), (['c', 'd', 'e'], ({'x': "
                                   '\'auto\'},), {})]", builtins.bool:True)',
 'dataset|coords-all|int': "list(raise builtins.AttributeError: 'int' object has no attribute "
                           "'items', builtins.str:'None', builtins.bool:True)",
 'tree|coords-all|int': "list(raise builtins.AttributeError: 'int' object has no attribute "
                        "'items', builtins.str:'None', builtins.bool:True)",
 'dataset-recorded|coords-all|int': "list(raise builtins.AttributeError: 'int' object has no "
                                    "attribute 'items', builtins.str:'[]', builtins.bool:True)",
 'tree-recorded|coords-all|int': "list(raise builtins.AttributeError: 'int' object has no "
                                 "attribute 'items', builtins.str:'[]', builtins.bool:True)",
 'dataset|coords-all|str': "list(raise builtins.AttributeError: 'str' object has no attribute "
                           "'items', builtins.str:'None', builtins.bool:True)",
 'tree|coords-all|str': "list(raise builtins.AttributeError: 'str' object has no attribute "
                        "'items', builtins.str:'None', builtins.bool:True)",
 'dataset-recorded|coords-all|str': "list(raise builtins.AttributeError: 'str' object has no "
                                    "attribute 'items', builtins.str:'[]', builtins.bool:True)",
 'tree-recorded|coords-all|str': "list(raise builtins.AttributeError: 'str' object has no "
                                 "attribute 'items', builtins.str:'[]', builtins.bool:True)",
 'dataset|coords-all|list': "list(raise builtins.AttributeError: 'list' object has no attribute "
                            "'items', builtins.str:'None', builtins.bool:True)",
 'tree|coords-all|list': "list(raise builtins.AttributeError: 'list' object has no attribute "
                         "'items', builtins.str:'None', builtins.bool:True)",
 'dataset-recorded|coords-all|list': "list(raise builtins.AttributeError: 'list' object has no "
                                     "attribute 'items', builtins.str:'[]', builtins.bool:True)",
 'tree-recorded|coords-all|list': "list(raise builtins.AttributeError: 'list' object has no "
                                  "attribute 'items', builtins.str:'[]', builtins.bool:True)",
 'dataset|coords-all|tuple-keys': "list(raise builtins.ImportError: chunk manager 'dask' is not "
                                  "available. Please make sure 'dask' is installed and "
                                  "importable., builtins.str:'None', builtins.bool:True)",
 'tree|coords-all|tuple-keys': "list(raise builtins.ImportError: chunk manager 'dask' is not "
                               "available. Please make sure 'dask' is installed and importable., "
                               "builtins.str:'None', builtins.bool:True)",
 'dataset-recorded|coords-all|tuple-keys': "list(dict{builtins.str:'type': builtins.str:'Dataset', "
                                           "builtins.str:'sizes': dict{builtins.str:'x': "
                                           "builtins.int:3, builtins.str:'y': builtins.int:4}, "
                                           "builtins.str:'data_vars': dict{}, "
                                           "builtins.str:'coords': dict{builtins.str:'c': "
                                           "dict{builtins.str:'dims': tuple(builtins.str:'x'), "
                                           "builtins.str:'dtype': builtins.str:'int8', "
                                           "builtins.str:'attrs': dict{builtins.str:'a': "
                                           "builtins.int:1}, builtins.str:'encoding': dict{}, "
                                           "builtins.str:'data-type': builtins.str:'ndarray', "
                                           "builtins.str:'values': ndarray[|i1|(3,)|010203]}, "
                                           "builtins.str:'d': dict{builtins.str:'dims': "
                                           "tuple(builtins.str:'x', builtins.str:'y'), "
                                           "builtins.str:'dtype': builtins.str:'int64', "
                                           "builtins.str:'attrs': dict{builtins.str:'b': "
                                           "builtins.str:'abc'}, builtins.str:'encoding': dict{}, "
                                           "builtins.str:'data-type': builtins.str:'ndarray', "
                                           "builtins.str:'values': ndarray[<i8|(3, "
                                           '4)|00000000000000000100000000000000020000000000000003000000000000000400000000000000050000000000000006000000000000000700000000000000080000000000000009000000000000000a000000000000000b00000000000000]}, '
                                           "builtins.str:'e': dict{builtins.str:'dims': "
                                           "tuple(builtins.str:'y'), builtins.str:'dtype': "
                                           "builtins.str:'float64', builtins.str:'attrs': dict{}, "
                                           "builtins.str:'encoding': dict{}, "
                                           "builtins.str:'data-type': builtins.str:'ndarray', "
                                           "builtins.str:'values': "
                                           'ndarray[<f8|(4,)|000000000000e03f000000000000f83f00000000000004400000000000000c40]}}, '
                                           "builtins.str:'attrs': dict{builtins.str:'title': "
                                           "builtins.str:'x', builtins.str:'chunked_with': "
                                           "builtins.str:'(({},), {})'}, builtins.str:'encoding': "
                                           'dict{}}, builtins.str:"[([\'c\', \'d\', \'e\'], ({},), '
                                           '{})]", builtins.bool:True)',
 'tree-recorded|coords-all|tuple-keys': "list(dict{builtins.str:'type': builtins.str:'DataTree', "
                                        "builtins.str:'name': builtins.NoneType:None, "
                                        "builtins.str:'paths': list(builtins.str:'/'), "
                                        "builtins.str:'nodes': dict{builtins.str:'/': "
                                        "dict{builtins.str:'type': builtins.str:'Dataset', "
                                        "builtins.str:'sizes': dict{builtins.str:'x': "
                                        "builtins.int:3, builtins.str:'y': builtins.int:4}, "
                                        "builtins.str:'data_vars': dict{}, builtins.str:'coords': "
                                        "dict{builtins.str:'c': dict{builtins.str:'dims': "
                                        "tuple(builtins.str:'x'), builtins.str:'dtype': "
                                        "builtins.str:'int8', builtins.str:'attrs': "
                                        "dict{builtins.str:'a': builtins.int:1}, "
                                        "builtins.str:'encoding': dict{}, "
                                        "builtins.str:'data-type': builtins.str:'ndarray', "
                                        "builtins.str:'values': ndarray[|i1|(3,)|010203]}, "
                                        "builtins.str:'d': dict{builtins.str:'dims': "
                                        "tuple(builtins.str:'x', builtins.str:'y'), "
                                        "builtins.str:'dtype': builtins.str:'int64', "
                                        "builtins.str:'attrs': dict{builtins.str:'b': "
                                        "builtins.str:'abc'}, builtins.str:'encoding': dict{}, "
                                        "builtins.str:'data-type': builtins.str:'ndarray', "
                                        "builtins.str:'values': ndarray[<i8|(3, "
                                        '4)|00000000000000000100000000000000020000000000000003000000000000000400000000000000050000000000000006000000000000000700000000000000080000000000000009000000000000000a000000000000000b00000000000000]}, '
                                        "builtins.str:'e': dict{builtins.str:'dims': "
                                        "tuple(builtins.str:'y'), builtins.str:'dtype': "
                                        "builtins.str:'float64', builtins.str:'attrs': dict{}, "
                                        "builtins.str:'encoding': dict{}, "
                                        "builtins.str:'data-type': builtins.str:'ndarray', "
                                        "builtins.str:'values': "
                                        'ndarray[<f8|(4,)|000000000000e03f000000000000f83f00000000000004400000000000000c40]}}, '
                                        "builtins.str:'attrs': dict{builtins.str:'title': "
                                        "builtins.str:'x', builtins.str:'chunked_with': "
                                        "builtins.str:'(({},), {})'}, builtins.str:'encoding': "
                                        'dict{}}}}, builtins.str:"[([\'c\', \'d\', \'e\'], ({},), '
                                        '{}), ([\'c\', \'d\', \'e\'], ({},), {})]", '
                                        'builtins.bool:True)',
 'dataset|coords-str|none': "list(dict{builtins.str:'type': builtins.str:'Dataset', "
                            "builtins.str:'sizes': dict{builtins.str:'x': builtins.int:3, "
                            "builtins.str:'y': builtins.int:4}, builtins.str:'data_vars': "
                            "dict{builtins.str:'c': dict{builtins.str:'dims': "
                            "tuple(builtins.str:'x'), builtins.str:'dtype': builtins.str:'int8', "
                            "builtins.str:'attrs': dict{builtins.str:'a': builtins.int:1}, "
                            "builtins.str:'encoding': dict{}, builtins.str:'data-type': "
                            "builtins.str:'ndarray', builtins.str:'values': "
                            "ndarray[|i1|(3,)|010203]}}, builtins.str:'coords': "
                            "dict{builtins.str:'d': dict{builtins.str:'dims': "
                            "tuple(builtins.str:'x', builtins.str:'y'), builtins.str:'dtype': "
                            "builtins.str:'int64', builtins.str:'attrs': dict{builtins.str:'b': "
                            "builtins.str:'abc'}, builtins.str:'encoding': dict{}, "
                            "builtins.str:'data-type': builtins.str:'ndarray', "
                            "builtins.str:'values': ndarray[<i8|(3, "
                            '4)|00000000000000000100000000000000020000000000000003000000000000000400000000000000050000000000000006000000000000000700000000000000080000000000000009000000000000000a000000000000000b00000000000000]}}, '
                            "builtins.str:'attrs': dict{}, builtins.str:'encoding': dict{}}, "
                            "builtins.str:'None', builtins.bool:True)",
 'tree|coords-str|none': "list(dict{builtins.str:'type': builtins.str:'DataTree', "
                         "builtins.str:'name': builtins.NoneType:None, builtins.str:'paths': "
                         "list(builtins.str:'/'), builtins.str:'nodes': dict{builtins.str:'/': "
                         "dict{builtins.str:'type': builtins.str:'Dataset', builtins.str:'sizes': "
                         "dict{builtins.str:'x': builtins.int:3, builtins.str:'y': "
                         "builtins.int:4}, builtins.str:'data_vars': dict{builtins.str:'c': "
                         "dict{builtins.str:'dims': tuple(builtins.str:'x'), builtins.str:'dtype': "
                         "builtins.str:'int8', builtins.str:'attrs': dict{builtins.str:'a': "
                         "builtins.int:1}, builtins.str:'encoding': dict{}, "
                         "builtins.str:'data-type': builtins.str:'ndarray', builtins.str:'values': "
                         "ndarray[|i1|(3,)|010203]}}, builtins.str:'coords': "
                         "dict{builtins.str:'d': dict{builtins.str:'dims': tuple(builtins.str:'x', "
                         "builtins.str:'y'), builtins.str:'dtype': builtins.str:'int64', "
                         "builtins.str:'attrs': dict{builtins.str:'b': builtins.str:'abc'}, "
                         "builtins.str:'encoding': dict{}, builtins.str:'data-type': "
                         "builtins.str:'ndarray', builtins.str:'values': ndarray[<i8|(3, "
                         '4)|00000000000000000100000000000000020000000000000003000000000000000400000000000000050000000000000006000000000000000700000000000000080000000000000009000000000000000a000000000000000b00000000000000]}}, '
                         "builtins.str:'attrs': dict{}, builtins.str:'encoding': dict{}}}}, "
                         "builtins.str:'None', builtins.bool:True)",
 'dataset|coords-str|empty': "list(raise builtins.ImportError: chunk manager 'dask' is not "
                             "available. Please make sure 'dask' is installed and importable., "
                             "builtins.str:'None', builtins.bool:True)",
 'tree|coords-str|empty': "list(raise builtins.ImportError: chunk manager 'dask' is not available. "
                          "Please make sure 'dask' is installed and importable., "
                          "builtins.str:'None', builtins.bool:True)",
 'dataset-recorded|coords-str|empty': "list(dict{builtins.str:'type': builtins.str:'Dataset', "
                                      "builtins.str:'sizes': dict{builtins.str:'x': "
                                      "builtins.int:3, builtins.str:'y': builtins.int:4}, "
                                      "builtins.str:'data_vars': dict{builtins.str:'c': "
                                      "dict{builtins.str:'dims': tuple(builtins.str:'x'), "
                                      "builtins.str:'dtype': builtins.str:'int8', "
                                      "builtins.str:'attrs': dict{builtins.str:'a': "
                                      "builtins.int:1}, builtins.str:'encoding': dict{}, "
                                      "builtins.str:'data-type': builtins.str:'ndarray', "
                                      "builtins.str:'values': ndarray[|i1|(3,)|010203]}}, "
                                      "builtins.str:'coords': dict{builtins.str:'d': "
                                      "dict{builtins.str:'dims': tuple(builtins.str:'x', "
                                      "builtins.str:'y'), builtins.str:'dtype': "
                                      "builtins.str:'int64', builtins.str:'attrs': "
                                      "dict{builtins.str:'b': builtins.str:'abc'}, "
                                      "builtins.str:'encoding': dict{}, builtins.str:'data-type': "
                                      "builtins.str:'ndarray', builtins.str:'values': "
                                      'ndarray[<i8|(3, '
                                      '4)|00000000000000000100000000000000020000000000000003000000000000000400000000000000050000000000000006000000000000000700000000000000080000000000000009000000000000000a000000000000000b00000000000000]}}, '
                                      "builtins.str:'attrs': dict{builtins.str:'chunked_with': "
                                      "builtins.str:'(({},), {})'}, builtins.str:'encoding': "
                                      'dict{}}, builtins.str:"[([\'c\', \'d\'], ({},), {})]", '
                                      'builtins.bool:True)',
 'tree-recorded|coords-str|empty': "list(dict{builtins.str:'type': builtins.str:'DataTree', "
                                   "builtins.str:'name': builtins.NoneType:None, "
                                   "builtins.str:'paths': list(builtins.str:'/'), "
                                   "builtins.str:'nodes': dict{builtins.str:'/': "
                                   "dict{builtins.str:'type': builtins.str:'Dataset', "
                                   "builtins.str:'sizes': dict{builtins.str:'x': builtins.int:3, "
                                   "builtins.str:'y': builtins.int:4}, builtins.str:'data_vars': "
                                   "dict{builtins.str:'c': dict{builtins.str:'dims': "
                                   "tuple(builtins.str:'x'), builtins.str:'dtype': "
                                   "builtins.str:'int8', builtins.str:'attrs': "
                                   "dict{builtins.str:'a': builtins.int:1}, "
                                   "builtins.str:'encoding': dict{}, builtins.str:'data-type': "
                                   "builtins.str:'ndarray', builtins.str:'values': "
                                   "ndarray[|i1|(3,)|010203]}}, builtins.str:'coords': "
                                   "dict{builtins.str:'d': dict{builtins.str:'dims': "
                                   "tuple(builtins.str:'x', builtins.str:'y'), "
                                   "builtins.str:'dtype': builtins.str:'int64', "
                                   "builtins.str:'attrs': dict{builtins.str:'b': "
                                   "builtins.str:'abc'}, builtins.str:'encoding': dict{}, "
                                   "builtins.str:'data-type': builtins.str:'ndarray', "
                                   "builtins.str:'values': ndarray[<i8|(3, "
                                   '4)|00000000000000000100000000000000020000000000000003000000000000000400000000000000050000000000000006000000000000000700000000000000080000000000000009000000000000000a000000000000000b00000000000000]}}, '
                                   "builtins.str:'attrs': dict{builtins.str:'chunked_with': "
                                   "builtins.str:'(({},), {})'}, builtins.str:'encoding': "
                                   'dict{}}}}, builtins.str:"[([\'c\', \'d\'], ({},), {}), '
                                   '([\'c\', \'d\'], ({},), {})]", builtins.bool:True)',
 'dataset|coords-str|x': "list(raise builtins.ImportError: chunk manager 'dask' is not available. "
                         "Please make sure 'dask' is installed and importable., "
                         "builtins.str:'None', builtins.bool:True)",
 'tree|coords-str|x': "list(raise builtins.ImportError: chunk manager 'dask' is not available. "
                      "Please make sure 'dask' is installed and importable., builtins.str:'None', "
                      'builtins.bool:True)',
 'dataset-recorded|coords-str|x': "list(dict{builtins.str:'type': builtins.str:'Dataset', "
                                  "builtins.str:'sizes': dict{builtins.str:'x': builtins.int:3, "
                                  "builtins.str:'y': builtins.int:4}, builtins.str:'data_vars': "
                                  "dict{builtins.str:'c': dict{builtins.str:'dims': "
                                  "tuple(builtins.str:'x'), builtins.str:'dtype': "
                                  "builtins.str:'int8', builtins.str:'attrs': "
                                  "dict{builtins.str:'a': builtins.int:1}, "
                                  "builtins.str:'encoding': dict{}, builtins.str:'data-type': "
                                  "builtins.str:'ndarray', builtins.str:'values': "
                                  "ndarray[|i1|(3,)|010203]}}, builtins.str:'coords': "
                                  "dict{builtins.str:'d': dict{builtins.str:'dims': "
                                  "tuple(builtins.str:'x', builtins.str:'y'), "
                                  "builtins.str:'dtype': builtins.str:'int64', "
                                  "builtins.str:'attrs': dict{builtins.str:'b': "
                                  "builtins.str:'abc'}, builtins.str:'encoding': dict{}, "
                                  "builtins.str:'data-type': builtins.str:'ndarray', "
                                  "builtins.str:'values': ndarray[<i8|(3, "
                                  '4)|00000000000000000100000000000000020000000000000003000000000000000400000000000000050000000000000006000000000000000700000000000000080000000000000009000000000000000a000000000000000b00000000000000]}}, '
                                  "builtins.str:'attrs': dict{builtins.str:'chunked_with': "
                                  'builtins.str:"(({\'x\': 1},), {})"}, builtins.str:\'encoding\': '
                                  'dict{}}, builtins.str:"[([\'c\', \'d\'], ({\'x\': 1},), {})]", '
                                  'builtins.bool:True)',
 'tree-recorded|coords-str|x': "list(dict{builtins.str:'type': builtins.str:'DataTree', "
                               "builtins.str:'name': builtins.NoneType:None, builtins.str:'paths': "
                               "list(builtins.str:'/'), builtins.str:'nodes': "
                               "dict{builtins.str:'/': dict{builtins.str:'type': "
                               "builtins.str:'Dataset', builtins.str:'sizes': "
                               "dict{builtins.str:'x': builtins.int:3, builtins.str:'y': "
                               "builtins.int:4}, builtins.str:'data_vars': dict{builtins.str:'c': "
                               "dict{builtins.str:'dims': tuple(builtins.str:'x'), "
                               "builtins.str:'dtype': builtins.str:'int8', builtins.str:'attrs': "
                               "dict{builtins.str:'a': builtins.int:1}, builtins.str:'encoding': "
                               "dict{}, builtins.str:'data-type': builtins.str:'ndarray', "
                               "builtins.str:'values': ndarray[|i1|(3,)|010203]}}, "
                               "builtins.str:'coords': dict{builtins.str:'d': "
                               "dict{builtins.str:'dims': tuple(builtins.str:'x', "
                               "builtins.str:'y'), builtins.str:'dtype': builtins.str:'int64', "
                               "builtins.str:'attrs': dict{builtins.str:'b': builtins.str:'abc'}, "
                               "builtins.str:'encoding': dict{}, builtins.str:'data-type': "
                               "builtins.str:'ndarray', builtins.str:'values': ndarray[<i8|(3, "
                               '4)|00000000000000000100000000000000020000000000000003000000000000000400000000000000050000000000000006000000000000000700000000000000080000000000000009000000000000000a000000000000000b00000000000000]}}, '
                               "builtins.str:'attrs': dict{builtins.str:'chunked_with': "
                               'builtins.str:"(({\'x\': 1},), {})"}, builtins.str:\'encoding\': '
                               'dict{}}}}, builtins.str:"[([\'c\', \'d\'], ({\'x\': 1},), {}), '
                               '([\'c\', \'d\'], ({\'x\': 1},), {})]", builtins.bool:True)',
 'dataset|coords-str|xy': "list(raise builtins.ImportError: chunk manager 'dask' is not available. "
                          "Please make sure 'dask' is installed and importable., "
                          "builtins.str:'None', builtins.bool:True)",
 'tree|coords-str|xy': "list(raise builtins.ImportError: chunk manager 'dask' is not available. "
                       "Please make sure 'dask' is installed and importable., builtins.str:'None', "
                       'builtins.bool:True)',
 'dataset-recorded|coords-str|xy': "list(dict{builtins.str:'type': builtins.str:'Dataset', "
                                   "builtins.str:'sizes': dict{builtins.str:'x': builtins.int:3, "
                                   "builtins.str:'y': builtins.int:4}, builtins.str:'data_vars': "
                                   "dict{builtins.str:'c': dict{builtins.str:'dims': "
                                   "tuple(builtins.str:'x'), builtins.str:'dtype': "
                                   "builtins.str:'int8', builtins.str:'attrs': "
                                   "dict{builtins.str:'a': builtins.int:1}, "
                                   "builtins.str:'encoding': dict{}, builtins.str:'data-type': "
                                   "builtins.str:'ndarray', builtins.str:'values': "
                                   "ndarray[|i1|(3,)|010203]}}, builtins.str:'coords': "
                                   "dict{builtins.str:'d': dict{builtins.str:'dims': "
                                   "tuple(builtins.str:'x', builtins.str:'y'), "
                                   "builtins.str:'dtype': builtins.str:'int64', "
                                   "builtins.str:'attrs': dict{builtins.str:'b': "
                                   "builtins.str:'abc'}, builtins.str:'encoding': dict{}, "
                                   "builtins.str:'data-type': builtins.str:'ndarray', "
                                   "builtins.str:'values': ndarray[<i8|(3, "
                                   '4)|00000000000000000100000000000000020000000000000003000000000000000400000000000000050000000000000006000000000000000700000000000000080000000000000009000000000000000a000000000000000b00000000000000]}}, '
                                   "builtins.str:'attrs': dict{builtins.str:'chunked_with': "
                                   'builtins.str:"(({\'x\': 1, \'y\': 2},), {})"}, '
                                   'builtins.str:\'encoding\': dict{}}, builtins.str:"[([\'c\', '
                                   '\'d\'], ({\'x\': 1, \'y\': 2},), {})]", builtins.bool:True)',
 'tree-recorded|coords-str|xy': "list(dict{builtins.str:'type': builtins.str:'DataTree', "
                                "builtins.str:'name': builtins.NoneType:None, "
                                "builtins.str:'paths': list(builtins.str:'/'), "
                                "builtins.str:'nodes': dict{builtins.str:'/': "
                                "dict{builtins.str:'type': builtins.str:'Dataset', "
                                "builtins.str:'sizes': dict{builtins.str:'x': builtins.int:3, "
                                "builtins.str:'y': builtins.int:4}, builtins.str:'data_vars': "
                                "dict{builtins.str:'c': dict{builtins.str:'dims': "
                                "tuple(builtins.str:'x'), builtins.str:'dtype': "
                                "builtins.str:'int8', builtins.str:'attrs': dict{builtins.str:'a': "
                                "builtins.int:1}, builtins.str:'encoding': dict{}, "
                                "builtins.str:'data-type': builtins.str:'ndarray', "
                                "builtins.str:'values': ndarray[|i1|(3,)|010203]}}, "
                                "builtins.str:'coords': dict{builtins.str:'d': "
                                "dict{builtins.str:'dims': tuple(builtins.str:'x', "
                                "builtins.str:'y'), builtins.str:'dtype': builtins.str:'int64', "
                                "builtins.str:'attrs': dict{builtins.str:'b': builtins.str:'abc'}, "
                                "builtins.str:'encoding': dict{}, builtins.str:'data-type': "
                                "builtins.str:'ndarray', builtins.str:'values': ndarray[<i8|(3, "
                                '4)|00000000000000000100000000000000020000000000000003000000000000000400000000000000050000000000000006000000000000000700000000000000080000000000000009000000000000000a000000000000000b00000000000000]}}, '
                                "builtins.str:'attrs': dict{builtins.str:'chunked_with': "
                                'builtins.str:"(({\'x\': 1, \'y\': 2},), {})"}, '
                                'builtins.str:\'encoding\': dict{}}}}, builtins.str:"[([\'c\', '
                                "'d'], ({'x': 1, 'y': 2},), {}), (['c', 'd'], ({'x': 1, 'y': 2},), "
                                '{})]", builtins.bool:True)',
 'dataset|coords-str|yx': "list(raise builtins.ImportError: chunk manager 'dask' is not available. "
                          "Please make sure 'dask' is installed and importable., "
                          "builtins.str:'None', builtins.bool:True)",
 'tree|coords-str|yx': "list(raise builtins.ImportError: chunk manager 'dask' is not available. "
                       "Please make sure 'dask' is installed and importable., builtins.str:'None', "
                       'builtins.bool:True)',
 'dataset-recorded|coords-str|yx': "list(dict{builtins.str:'type': builtins.str:'Dataset', "
                                   "builtins.str:'sizes': dict{builtins.str:'x': builtins.int:3, "
                                   "builtins.str:'y': builtins.int:4}, builtins.str:'data_vars': "
                                   "dict{builtins.str:'c': dict{builtins.str:'dims': "
                                   "tuple(builtins.str:'x'), builtins.str:'dtype': "
                                   "builtins.str:'int8', builtins.str:'attrs': "
                                   "dict{builtins.str:'a': builtins.int:1}, "
                                   "builtins.str:'encoding': dict{}, builtins.str:'data-type': "
                                   "builtins.str:'ndarray', builtins.str:'values': "
                                   "ndarray[|i1|(3,)|010203]}}, builtins.str:'coords': "
                                   "dict{builtins.str:'d': dict{builtins.str:'dims': "
                                   "tuple(builtins.str:'x', builtins.str:'y'), "
                                   "builtins.str:'dtype': builtins.str:'int64', "
                                   "builtins.str:'attrs': dict{builtins.str:'b': "
                                   "builtins.str:'abc'}, builtins.str:'encoding': dict{}, "
                                   "builtins.str:'data-type': builtins.str:'ndarray', "
                                   "builtins.str:'values': ndarray[<i8|(3, "
                                   '4)|00000000000000000100000000000000020000000000000003000000000000000400000000000000050000000000000006000000000000000700000000000000080000000000000009000000000000000a000000000000000b00000000000000]}}, '
                                   "builtins.str:'attrs': dict{builtins.str:'chunked_with': "
                                   'builtins.str:"(({\'y\': 2, \'x\': -1},), {})"}, '
                                   'builtins.str:\'encoding\': dict{}}, builtins.str:"[([\'c\', '
                                   '\'d\'], ({\'y\': 2, \'x\': -1},), {})]", builtins.bool:True)',
 'tree-recorded|coords-str|yx': "list(dict{builtins.str:'type': builtins.str:'DataTree', "
                                "builtins.str:'name': builtins.NoneType:None, "
                                "builtins.str:'paths': list(builtins.str:'/'), "
                                "builtins.str:'nodes': dict{builtins.str:'/': "
                                "dict{builtins.str:'type': builtins.str:'Dataset', "
                                "builtins.str:'sizes': dict{builtins.str:'x': builtins.int:3, "
                                "builtins.str:'y': builtins.int:4}, builtins.str:'data_vars': "
                                "dict{builtins.str:'c': dict{builtins.str:'dims': "
                                "tuple(builtins.str:'x'), builtins.str:'dtype': "
                                "builtins.str:'int8', builtins.str:'attrs': dict{builtins.str:'a': "
                                "builtins.int:1}, builtins.str:'encoding': dict{}, "
                                "builtins.str:'data-type': builtins.str:'ndarray', "
                                "builtins.str:'values': ndarray[|i1|(3,)|010203]}}, "
                                "builtins.str:'coords': dict{builtins.str:'d': "
                                "dict{builtins.str:'dims': tuple(builtins.str:'x', "
                                "builtins.str:'y'), builtins.str:'dtype': builtins.str:'int64', "
                                "builtins.str:'attrs': dict{builtins.str:'b': builtins.str:'abc'}, "
                                "builtins.str:'encoding': dict{}, builtins.str:'data-type': "
                                "builtins.str:'ndarray', builtins.str:'values': ndarray[<i8|(3, "
                                '4)|00000000000000000100000000000000020000000000000003000000000000000400000000000000050000000000000006000000000000000700000000000000080000000000000009000000000000000a000000000000000b00000000000000]}}, '
                                "builtins.str:'attrs': dict{builtins.str:'chunked_with': "
                                'builtins.str:"(({\'y\': 2, \'x\': -1},), {})"}, '
                                'builtins.str:\'encoding\': dict{}}}}, builtins.str:"[([\'c\', '
                                "'d'], ({'y': 2, 'x': -1},), {}), (['c', 'd'], ({'y': 2, 'x': "
                                '-1},), {})]", builtins.bool:True)',
 'dataset|coords-str|unknown': "list(raise builtins.ImportError: chunk manager 'dask' is not "
                               "available. Please make sure 'dask' is installed and importable., "
                               "builtins.str:'None', builtins.bool:True)",
 'tree|coords-str|unknown': "list(raise builtins.ImportError: chunk manager 'dask' is not "
                            "available. Please make sure 'dask' is installed and importable., "
                            "builtins.str:'None', builtins.bool:True)",
 'dataset-recorded|coords-str|unknown': "list(dict{builtins.str:'type': builtins.str:'Dataset', "
                                        "builtins.str:'sizes': dict{builtins.str:'x': "
                                        "builtins.int:3, builtins.str:'y': builtins.int:4}, "
                                        "builtins.str:'data_vars': dict{builtins.str:'c': "
                                        "dict{builtins.str:'dims': tuple(builtins.str:'x'), "
                                        "builtins.str:'dtype': builtins.str:'int8', "
                                        "builtins.str:'attrs': dict{builtins.str:'a': "
                                        "builtins.int:1}, builtins.str:'encoding': dict{}, "
                                        "builtins.str:'data-type': builtins.str:'ndarray', "
                                        "builtins.str:'values': ndarray[|i1|(3,)|010203]}}, "
                                        "builtins.str:'coords': dict{builtins.str:'d': "
                                        "dict{builtins.str:'dims': tuple(builtins.str:'x', "
                                        "builtins.str:'y'), builtins.str:'dtype': "
                                        "builtins.str:'int64', builtins.str:'attrs': "
                                        "dict{builtins.str:'b': builtins.str:'abc'}, "
                                        "builtins.str:'encoding': dict{}, "
                                        "builtins.str:'data-type': builtins.str:'ndarray', "
                                        "builtins.str:'values': ndarray[<i8|(3, "
                                        '4)|00000000000000000100000000000000020000000000000003000000000000000400000000000000050000000000000006000000000000000700000000000000080000000000000009000000000000000a000000000000000b00000000000000]}}, '
                                        "builtins.str:'attrs': dict{builtins.str:'chunked_with': "
                                        "builtins.str:'(({},), {})'}, builtins.str:'encoding': "
                                        'dict{}}, builtins.str:"[([\'c\', \'d\'], ({},), {})]", '
                                        'builtins.bool:True)',
 'tree-recorded|coords-str|unknown': "list(dict{builtins.str:'type': builtins.str:'DataTree', "
                                     "builtins.str:'name': builtins.NoneType:None, "
                                     "builtins.str:'paths': list(builtins.str:'/'), "
                                     "builtins.str:'nodes': dict{builtins.str:'/': "
                                     "dict{builtins.str:'type': builtins.str:'Dataset', "
                                     "builtins.str:'sizes': dict{builtins.str:'x': builtins.int:3, "
                                     "builtins.str:'y': builtins.int:4}, builtins.str:'data_vars': "
                                     "dict{builtins.str:'c': dict{builtins.str:'dims': "
                                     "tuple(builtins.str:'x'), builtins.str:'dtype': "
                                     "builtins.str:'int8', builtins.str:'attrs': "
                                     "dict{builtins.str:'a': builtins.int:1}, "
                                     "builtins.str:'encoding': dict{}, builtins.str:'data-type': "
                                     "builtins.str:'ndarray', builtins.str:'values': "
                                     "ndarray[|i1|(3,)|010203]}}, builtins.str:'coords': "
                                     "dict{builtins.str:'d': dict{builtins.str:'dims': "
                                     "tuple(builtins.str:'x', builtins.str:'y'), "
                                     "builtins.str:'dtype': builtins.str:'int64', "
                                     "builtins.str:'attrs': dict{builtins.str:'b': "
                                     "builtins.str:'abc'}, builtins.str:'encoding': dict{}, "
                                     "builtins.str:'data-type': builtins.str:'ndarray', "
                                     "builtins.str:'values': ndarray[<i8|(3, "
                                     '4)|00000000000000000100000000000000020000000000000003000000000000000400000000000000050000000000000006000000000000000700000000000000080000000000000009000000000000000a000000000000000b00000000000000]}}, '
                                     "builtins.str:'attrs': dict{builtins.str:'chunked_with': "
                                     "builtins.str:'(({},), {})'}, builtins.str:'encoding': "
                                     'dict{}}}}, builtins.str:"[([\'c\', \'d\'], ({},), {}), '
                                     '([\'c\', \'d\'], ({},), {})]", builtins.bool:True)',
 'dataset|coords-str|mixed': "list(raise builtins.ImportError: chunk manager 'dask' is not "
                             "available. Please make sure 'dask' is installed and importable., "
                             "builtins.str:'None', builtins.bool:True)",
 'tree|coords-str|mixed': "list(raise builtins.ImportError: chunk manager 'dask' is not available. "
                          "Please make sure 'dask' is installed and importable., "
                          "builtins.str:'None', builtins.bool:True)",
 'dataset-recorded|coords-str|mixed': "list(dict{builtins.str:'type': builtins.str:'Dataset', "
                                      "builtins.str:'sizes': dict{builtins.str:'x': "
                                      "builtins.int:3, builtins.str:'y': builtins.int:4}, "
                                      "builtins.str:'data_vars': dict{builtins.str:'c': "
                                      "dict{builtins.str:'dims': tuple(builtins.str:'x'), "
                                      "builtins.str:'dtype': builtins.str:'int8', "
                                      "builtins.str:'attrs': dict{builtins.str:'a': "
                                      "builtins.int:1}, builtins.str:'encoding': dict{}, "
                                      "builtins.str:'data-type': builtins.str:'ndarray', "
                                      "builtins.str:'values': ndarray[|i1|(3,)|010203]}}, "
                                      "builtins.str:'coords': dict{builtins.str:'d': "
                                      "dict{builtins.str:'dims': tuple(builtins.str:'x', "
                                      "builtins.str:'y'), builtins.str:'dtype': "
                                      "builtins.str:'int64', builtins.str:'attrs': "
                                      "dict{builtins.str:'b': builtins.str:'abc'}, "
                                      "builtins.str:'encoding': dict{}, builtins.str:'data-type': "
                                      "builtins.str:'ndarray', builtins.str:'values': "
                                      'ndarray[<i8|(3, '
                                      '4)|00000000000000000100000000000000020000000000000003000000000000000400000000000000050000000000000006000000000000000700000000000000080000000000000009000000000000000a000000000000000b00000000000000]}}, '
                                      "builtins.str:'attrs': dict{builtins.str:'chunked_with': "
                                      'builtins.str:"(({\'x\': \'auto\'},), {})"}, '
                                      'builtins.str:\'encoding\': dict{}}, builtins.str:"[([\'c\', '
                                      '\'d\'], ({\'x\': \'auto\'},), {})]", builtins.bool:True)',
 'tree-recorded|coords-str|mixed': "list(dict{builtins.str:'type': builtins.str:'DataTree', "
                                   "builtins.str:'name': builtins.NoneType:None, "
                                   "builtins.str:'paths': list(builtins.str:'/'), "
                                   "builtins.str:'nodes': dict{builtins.str:'/': "
                                   "dict{builtins.str:'type': builtins.str:'Dataset', "
                                   "builtins.str:'sizes': dict{builtins.str:'x': builtins.int:3, "
                                   "builtins.str:'y': builtins.int:4}, builtins.str:'data_vars': "
                                   "dict{builtins.str:'c': dict{builtins.str:'dims': "
                                   "tuple(builtins.str:'x'), builtins.str:'dtype': "
                                   "builtins.str:'int8', builtins.str:'attrs': "
                                   "dict{builtins.str:'a': builtins.int:1}, "
                                   "builtins.str:'encoding': dict{}, builtins.str:'data-type': "
                                   "builtins.str:'ndarray', builtins.str:'values': "
                                   "ndarray[|i1|(3,)|010203]}}, builtins.str:'coords': "
                                   "dict{builtins.str:'d': dict{builtins.str:'dims': "
                                   "tuple(builtins.str:'x', builtins.str:'y'), "
                                   "builtins.str:'dtype': builtins.str:'int64', "
                                   "builtins.str:'attrs': dict{builtins.str:'b': "
                                   "builtins.str:'abc'}, builtins.str:'encoding': dict{}, "
                                   "builtins.str:'data-type': builtins.str:'ndarray', "
                                   "builtins.str:'values': ndarray[<i8|(3, "
                                   '4)|00000000000000000100000000000000020000000000000003000000000000000400000000000000050000000000000006000000000000000700000000000000080000000000000009000000000000000a000000000000000b00000000000000]}}, '
                                   "builtins.str:'attrs': dict{builtins.str:'chunked_with': "
                                   'builtins.str:"(({\'x\': \'auto\'},), {})"}, '
                                   'builtins.str:\'encoding\': dict{}}}}, builtins.str:"[([\'c\', '
                                   "'d'], ({'x': 'auto'},), {}), (['c', 'd'], ({'x': 'auto'},), "
                                   '{})]", builtins.bool:True)',
 'dataset|coords-str|int': "list(raise builtins.AttributeError: 'int' object has no attribute "
                           "'items', builtins.str:'None', builtins.bool:True)",
 'tree|coords-str|int': "list(raise builtins.AttributeError: 'int' object has no attribute "
                        "'items', builtins.str:'None', builtins.bool:True)",
 'dataset-recorded|coords-str|int': "list(raise builtins.AttributeError: 'int' object has no "
                                    "attribute 'items', builtins.str:'[]', builtins.bool:True)",
 'tree-recorded|coords-str|int': "list(raise builtins.AttributeError: 'int' object has no "
                                 "attribute 'items', builtins.str:'[]', builtins.bool:True)",
 'dataset|coords-str|str': "list(raise builtins.AttributeError: 'str' object has no attribute "
                           "'items', builtins.str:'None', builtins.bool:True)",
 'tree|coords-str|str': "list(raise builtins.AttributeError: 'str' object has no attribute "
                        "'items', builtins.str:'None', builtins.bool:True)",
 'dataset-recorded|coords-str|str': "list(raise builtins.AttributeError: 'str' object has no "
                                    "attribute 'items', builtins.str:'[]', builtins.bool:True)",
 'tree-recorded|coords-str|str': "list(raise builtins.AttributeError: 'str' object has no "
                                 "attribute 'items', builtins.str:'[]', builtins.bool:True)",
 'dataset|coords-str|list': "list(raise builtins.AttributeError: 'list' object has no attribute "
                            "'items', builtins.str:'None', builtins.bool:True)",
 'tree|coords-str|list': "list(raise builtins.AttributeError: 'list' object has no attribute "
                         "'items', builtins.str:'None', builtins.bool:True)",
 'dataset-recorded|coords-str|list': "list(raise builtins.AttributeError: 'list' object has no "
                                     "attribute 'items', builtins.str:'[]', builtins.bool:True)",
 'tree-recorded|coords-str|list': "list(raise builtins.AttributeError: 'list' object has no "
                                  "attribute 'items', builtins.str:'[]', builtins.bool:True)",
 'dataset|coords-str|tuple-keys': "list(raise builtins.ImportError: chunk manager 'dask' is not "
                                  "available. Please make sure 'dask' is installed and "
                                  "importable., builtins.str:'None', builtins.bool:True)",
 'tree|coords-str|tuple-keys': "list(raise builtins.ImportError: chunk manager 'dask' is not "
                               "available. Please make sure 'dask' is installed and importable., "
                               "builtins.str:'None', builtins.bool:True)",
 'dataset-recorded|coords-str|tuple-keys': "list(dict{builtins.str:'type': builtins.str:'Dataset', "
                                           "builtins.str:'sizes': dict{builtins.str:'x': "
                                           "builtins.int:3, builtins.str:'y': builtins.int:4}, "
                                           "builtins.str:'data_vars': dict{builtins.str:'c': "
                                           "dict{builtins.str:'dims': tuple(builtins.str:'x'), "
                                           "builtins.str:'dtype': builtins.str:'int8', "
                                           "builtins.str:'attrs': dict{builtins.str:'a': "
                                           "builtins.int:1}, builtins.str:'encoding': dict{}, "
                                           "builtins.str:'data-type': builtins.str:'ndarray', "
                                           "builtins.str:'values': ndarray[|i1|(3,)|010203]}}, "
                                           "builtins.str:'coords': dict{builtins.str:'d': "
                                           "dict{builtins.str:'dims': tuple(builtins.str:'x', "
                                           "builtins.str:'y'), builtins.str:'dtype': "
                                           "builtins.str:'int64', builtins.str:'attrs': "
                                           "dict{builtins.str:'b': builtins.str:'abc'}, "
                                           "builtins.str:'encoding': dict{}, "
                                           "builtins.str:'data-type': builtins.str:'ndarray', "
                                           "builtins.str:'values': ndarray[<i8|(3, "
                                           '4)|00000000000000000100000000000000020000000000000003000000000000000400000000000000050000000000000006000000000000000700000000000000080000000000000009000000000000000a000000000000000b00000000000000]}}, '
                                           "builtins.str:'attrs': "
                                           "dict{builtins.str:'chunked_with': "
                                           "builtins.str:'(({},), {})'}, builtins.str:'encoding': "
                                           'dict{}}, builtins.str:"[([\'c\', \'d\'], ({},), {})]", '
                                           'builtins.bool:True)',
 'tree-recorded|coords-str|tuple-keys': "list(dict{builtins.str:'type': builtins.str:'DataTree', "
                                        "builtins.str:'name': builtins.NoneType:None, "
                                        "builtins.str:'paths': list(builtins.str:'/'), "
                                        "builtins.str:'nodes': dict{builtins.str:'/': "
                                        "dict{builtins.str:'type': builtins.str:'Dataset', "
                                        "builtins.str:'sizes': dict{builtins.str:'x': "
                                        "builtins.int:3, builtins.str:'y': builtins.int:4}, "
                                        "builtins.str:'data_vars': dict{builtins.str:'c': "
                                        "dict{builtins.str:'dims': tuple(builtins.str:'x'), "
                                        "builtins.str:'dtype': builtins.str:'int8', "
                                        "builtins.str:'attrs': dict{builtins.str:'a': "
                                        "builtins.int:1}, builtins.str:'encoding': dict{}, "
                                        "builtins.str:'data-type': builtins.str:'ndarray', "
                                        "builtins.str:'values': ndarray[|i1|(3,)|010203]}}, "
                                        "builtins.str:'coords': dict{builtins.str:'d': "
                                        "dict{builtins.str:'dims': tuple(builtins.str:'x', "
                                        "builtins.str:'y'), builtins.str:'dtype': "
                                        "builtins.str:'int64', builtins.str:'attrs': "
                                        "dict{builtins.str:'b': builtins.str:'abc'}, "
                                        "builtins.str:'encoding': dict{}, "
                                        "builtins.str:'data-type': builtins.str:'ndarray', "
                                        "builtins.str:'values': ndarray[<i8|(3, "
                                        '4)|00000000000000000100000000000000020000000000000003000000000000000400000000000000050000000000000006000000000000000700000000000000080000000000000009000000000000000a000000000000000b00000000000000]}}, '
                                        "builtins.str:'attrs': dict{builtins.str:'chunked_with': "
                                        "builtins.str:'(({},), {})'}, builtins.str:'encoding': "
                                        'dict{}}}}, builtins.str:"[([\'c\', \'d\'], ({},), {}), '
                                        '([\'c\', \'d\'], ({},), {})]", builtins.bool:True)',
 'dataset|coords-tuple|none': "list(dict{builtins.str:'type': builtins.str:'Dataset', "
                              "builtins.str:'sizes': dict{builtins.str:'x': builtins.int:3, "
                              "builtins.str:'y': builtins.int:4}, builtins.str:'data_vars': "
                              "dict{builtins.str:'d': dict{builtins.str:'dims': "
                              "tuple(builtins.str:'x', builtins.str:'y'), builtins.str:'dtype': "
                              "builtins.str:'int64', builtins.str:'attrs': dict{builtins.str:'b': "
                              "builtins.str:'abc'}, builtins.str:'encoding': dict{}, "
                              "builtins.str:'data-type': builtins.str:'ndarray', "
                              "builtins.str:'values': ndarray[<i8|(3, "
                              '4)|00000000000000000100000000000000020000000000000003000000000000000400000000000000050000000000000006000000000000000700000000000000080000000000000009000000000000000a000000000000000b00000000000000]}}, '
                              "builtins.str:'coords': dict{builtins.str:'c': "
                              "dict{builtins.str:'dims': tuple(builtins.str:'x'), "
                              "builtins.str:'dtype': builtins.str:'int8', builtins.str:'attrs': "
                              "dict{builtins.str:'a': builtins.int:1}, builtins.str:'encoding': "
                              "dict{}, builtins.str:'data-type': builtins.str:'ndarray', "
                              "builtins.str:'values': ndarray[|i1|(3,)|010203]}}, "
                              "builtins.str:'attrs': dict{}, builtins.str:'encoding': dict{}}, "
                              "builtins.str:'None', builtins.bool:True)",
 'tree|coords-tuple|none': "list(dict{builtins.str:'type': builtins.str:'DataTree', "
                           "builtins.str:'name': builtins.NoneType:None, builtins.str:'paths': "
                           "list(builtins.str:'/'), builtins.str:'nodes': dict{builtins.str:'/': "
                           "dict{builtins.str:'type': builtins.str:'Dataset', "
                           "builtins.str:'sizes': dict{builtins.str:'x': builtins.int:3, "
                           "builtins.str:'y': builtins.int:4}, builtins.str:'data_vars': "
                           "dict{builtins.str:'d': dict{builtins.str:'dims': "
                           "tuple(builtins.str:'x', builtins.str:'y'), builtins.str:'dtype': "
                           "builtins.str:'int64', builtins.str:'attrs': dict{builtins.str:'b': "
                           "builtins.str:'abc'}, builtins.str:'encoding': dict{}, "
                           "builtins.str:'data-type': builtins.str:'ndarray', "
                           "builtins.str:'values': ndarray[<i8|(3, "
                           '4)|00000000000000000100000000000000020000000000000003000000000000000400000000000000050000000000000006000000000000000700000000000000080000000000000009000000000000000a000000000000000b00000000000000]}}, '
                           "builtins.str:'coords': dict{builtins.str:'c': "
                           "dict{builtins.str:'dims': tuple(builtins.str:'x'), "
                           "builtins.str:'dtype': builtins.str:'int8', builtins.str:'attrs': "
                           "dict{builtins.str:'a': builtins.int:1}, builtins.str:'encoding': "
                           "dict{}, builtins.str:'data-type': builtins.str:'ndarray', "
                           "builtins.str:'values': ndarray[|i1|(3,)|010203]}}, "
                           "builtins.str:'attrs': dict{}, builtins.str:'encoding': dict{}}}}, "
                           "builtins.str:'None', builtins.bool:True)",
 'dataset|coords-tuple|empty': "list(raise builtins.ImportError: chunk manager 'dask' is not "
                               "available. Please make sure 'dask' is installed and importable., "
                               "builtins.str:'None', builtins.bool:True)",
 'tree|coords-tuple|empty': "list(raise builtins.ImportError: chunk manager 'dask' is not "
                            "available. Please make sure 'dask' is installed and importable., "
                            "builtins.str:'None', builtins.bool:True)",
 'dataset-recorded|coords-tuple|empty': "list(dict{builtins.str:'type': builtins.str:'Dataset', "
                                        "builtins.str:'sizes': dict{builtins.str:'x': "
                                        "builtins.int:3, builtins.str:'y': builtins.int:4}, "
                                        "builtins.str:'data_vars': dict{builtins.str:'d': "
                                        "dict{builtins.str:'dims': tuple(builtins.str:'x', "
                                        "builtins.str:'y'), builtins.str:'dtype': "
                                        "builtins.str:'int64', builtins.str:'attrs': "
                                        "dict{builtins.str:'b': builtins.str:'abc'}, "
                                        "builtins.str:'encoding': dict{}, "
                                        "builtins.str:'data-type': builtins.str:'ndarray', "
                                        "builtins.str:'values': ndarray[<i8|(3, "
                                        '4)|00000000000000000100000000000000020000000000000003000000000000000400000000000000050000000000000006000000000000000700000000000000080000000000000009000000000000000a000000000000000b00000000000000]}}, '
                                        "builtins.str:'coords': dict{builtins.str:'c': "
                                        "dict{builtins.str:'dims': tuple(builtins.str:'x'), "
                                        "builtins.str:'dtype': builtins.str:'int8', "
                                        "builtins.str:'attrs': dict{builtins.str:'a': "
                                        "builtins.int:1}, builtins.str:'encoding': dict{}, "
                                        "builtins.str:'data-type': builtins.str:'ndarray', "
                                        "builtins.str:'values': ndarray[|i1|(3,)|010203]}}, "
                                        "builtins.str:'attrs': dict{builtins.str:'chunked_with': "
                                        "builtins.str:'(({},), {})'}, builtins.str:'encoding': "
                                        'dict{}}, builtins.str:"[([\'c\', \'d\'], ({},), {})]", '
                                        'builtins.bool:True)',
 'tree-recorded|coords-tuple|empty': "list(dict{builtins.str:'type': builtins.str:'DataTree', "
                                     "builtins.str:'name': builtins.NoneType:None, "
                                     "builtins.str:'paths': list(builtins.str:'/'), "
                                     "builtins.str:'nodes': dict{builtins.str:'/': "
                                     "dict{builtins.str:'type': builtins.str:'Dataset', "
                                     "builtins.str:'sizes': dict{builtins.str:'x': builtins.int:3, "
                                     "builtins.str:'y': builtins.int:4}, builtins.str:'data_vars': "
                                     "dict{builtins.str:'d': dict{builtins.str:'dims': "
                                     "tuple(builtins.str:'x', builtins.str:'y'), "
                                     "builtins.str:'dtype': builtins.str:'int64', "
                                     "builtins.str:'attrs': dict{builtins.str:'b': "
                                     "builtins.str:'abc'}, builtins.str:'encoding': dict{}, "
                                     "builtins.str:'data-type': builtins.str:'ndarray', "
                                     "builtins.str:'values': ndarray[<i8|(3, "
                                     '4)|00000000000000000100000000000000020000000000000003000000000000000400000000000000050000000000000006000000000000000700000000000000080000000000000009000000000000000a000000000000000b00000000000000]}}, '
                                     "builtins.str:'coords': dict{builtins.str:'c': "
                                     "dict{builtins.str:'dims': tuple(builtins.str:'x'), "
                                     "builtins.str:'dtype': builtins.str:'int8', "
                                     "builtins.str:'attrs': dict{builtins.str:'a': "
                                     "builtins.int:1}, builtins.str:'encoding': dict{}, "
                                     "builtins.str:'data-type': builtins.str:'ndarray', "
                                     "builtins.str:'values': ndarray[|i1|(3,)|010203]}}, "
                                     "builtins.str:'attrs': dict{builtins.str:'chunked_with': "
                                     "builtins.str:'(({},), {})'}, builtins.str:'encoding': "
                                     'dict{}}}}, builtins.str:"[([\'c\', \'d\'], ({},), {}), '
                                     '([\'c\', \'d\'], ({},), {})]", builtins.bool:True)',
 'dataset|coords-tuple|x': "list(raise builtins.ImportError: chunk manager 'dask' is not "
                           "available. Please make sure 'dask' is installed and importable., "
                           "builtins.str:'None', builtins.bool:True)",
 'tree|coords-tuple|x': "list(raise builtins.ImportError: chunk manager 'dask' is not available. "
                        "Please make sure 'dask' is installed and importable., "
                        "builtins.str:'None', builtins.bool:True)",
 'dataset-recorded|coords-tuple|x': "list(dict{builtins.str:'type': builtins.str:'Dataset', "
                                    "builtins.str:'sizes': dict{builtins.str:'x': builtins.int:3, "
                                    "builtins.str:'y': builtins.int:4}, builtins.str:'data_vars': "
                                    "dict{builtins.str:'d': dict{builtins.str:'dims': "
                                    "tuple(builtins.str:'x', builtins.str:'y'), "
                                    "builtins.str:'dtype': builtins.str:'int64', "
                                    "builtins.str:'attrs': dict{builtins.str:'b': "
                                    "builtins.str:'abc'}, builtins.str:'encoding': dict{}, "
                                    "builtins.str:'data-type': builtins.str:'ndarray', "
                                    "builtins.str:'values': ndarray[<i8|(3, "
                                    '4)|00000000000000000100000000000000020000000000000003000000000000000400000000000000050000000000000006000000000000000700000000000000080000000000000009000000000000000a000000000000000b00000000000000]}}, '
                                    "builtins.str:'coords': dict{builtins.str:'c': "
                                    "dict{builtins.str:'dims': tuple(builtins.str:'x'), "
                                    "builtins.str:'dtype': builtins.str:'int8', "
                                    "builtins.str:'attrs': dict{builtins.str:'a': builtins.int:1}, "
                                    "builtins.str:'encoding': dict{}, builtins.str:'data-type': "
                                    "builtins.str:'ndarray', builtins.str:'values': "
                                    "ndarray[|i1|(3,)|010203]}}, builtins.str:'attrs': "
                                    'dict{builtins.str:\'chunked_with\': builtins.str:"(({\'x\': '
                                    '1},), {})"}, builtins.str:\'encoding\': dict{}}, '
                                    'builtins.str:"[([\'c\', \'d\'], ({\'x\': 1},), {})]", '
                                    'builtins.bool:True)',
 'tree-recorded|coords-tuple|x': "list(dict{builtins.str:'type': builtins.str:'DataTree', "
                                 "builtins.str:'name': builtins.NoneType:None, "
                                 "builtins.str:'paths': list(builtins.str:'/'), "
                                 "builtins.str:'nodes': dict{builtins.str:'/': "
                                 "dict{builtins.str:'type': builtins.str:'Dataset', "
                                 "builtins.str:'sizes': dict{builtins.str:'x': builtins.int:3, "
                                 "builtins.str:'y': builtins.int:4}, builtins.str:'data_vars': "
                                 "dict{builtins.str:'d': dict{builtins.str:'dims': "
                                 "tuple(builtins.str:'x', builtins.str:'y'), builtins.str:'dtype': "
                                 "builtins.str:'int64', builtins.str:'attrs': "
                                 "dict{builtins.str:'b': builtins.str:'abc'}, "
                                 "builtins.str:'encoding': dict{}, builtins.str:'data-type': "
                                 "builtins.str:'ndarray', builtins.str:'values': ndarray[<i8|(3, "
                                 '4)|00000000000000000100000000000000020000000000000003000000000000000400000000000000050000000000000006000000000000000700000000000000080000000000000009000000000000000a000000000000000b00000000000000]}}, '
                                 "builtins.str:'coords': dict{builtins.str:'c': "
                                 "dict{builtins.str:'dims': tuple(builtins.str:'x'), "
                                 "builtins.str:'dtype': builtins.str:'int8', builtins.str:'attrs': "
                                 "dict{builtins.str:'a': builtins.int:1}, builtins.str:'encoding': "
                                 "dict{}, builtins.str:'data-type': builtins.str:'ndarray', "
                                 "builtins.str:'values': ndarray[|i1|(3,)|010203]}}, "
                                 "builtins.str:'attrs': dict{builtins.str:'chunked_with': "
                                 'builtins.str:"(({\'x\': 1},), {})"}, builtins.str:\'encoding\': '
                                 'dict{}}}}, builtins.str:"[([\'c\', \'d\'], ({\'x\': 1},), {}), '
                                 '([\'c\', \'d\'], ({\'x\': 1},), {})]", builtins.bool:True)',
 'dataset|coords-tuple|xy': "list(raise builtins.ImportError: chunk manager 'dask' is not "
                            "available. Please make sure 'dask' is installed and importable., "
                            "builtins.str:'None', builtins.bool:True)",
 'tree|coords-tuple|xy': "list(raise builtins.ImportError: chunk manager 'dask' is not available. "
                         "Please make sure 'dask' is installed and importable., "
                         "builtins.str:'None', builtins.bool:True)",
 'dataset-recorded|coords-tuple|xy': "list(dict{builtins.str:'type': builtins.str:'Dataset', "
                                     "builtins.str:'sizes': dict{builtins.str:'x': builtins.int:3, "
                                     "builtins.str:'y': builtins.int:4}, builtins.str:'data_vars': "
                                     "dict{builtins.str:'d': dict{builtins.str:'dims': "
                                     "tuple(builtins.str:'x', builtins.str:'y'), "
                                     "builtins.str:'dtype': builtins.str:'int64', "
                                     "builtins.str:'attrs': dict{builtins.str:'b': "
                                     "builtins.str:'abc'}, builtins.str:'encoding': dict{}, "
                                     "builtins.str:'data-type': builtins.str:'ndarray', "
                                     "builtins.str:'values': ndarray[<i8|(3, "
                                     '4)|00000000000000000100000000000000020000000000000003000000000000000400000000000000050000000000000006000000000000000700000000000000080000000000000009000000000000000a000000000000000b00000000000000]}}, '
                                     "builtins.str:'coords': dict{builtins.str:'c': "
                                     "dict{builtins.str:'dims': tuple(builtins.str:'x'), "
                                     "builtins.str:'dtype': builtins.str:'int8', "
                                     "builtins.str:'attrs': dict{builtins.str:'a': "
                                     "builtins.int:1}, builtins.str:'encoding': dict{}, "
                                     "builtins.str:'data-type': builtins.str:'ndarray', "
                                     "builtins.str:'values': ndarray[|i1|(3,)|010203]}}, "
                                     "builtins.str:'attrs': dict{builtins.str:'chunked_with': "
                                     'builtins.str:"(({\'x\': 1, \'y\': 2},), {})"}, '
                                     'builtins.str:\'encoding\': dict{}}, builtins.str:"[([\'c\', '
                                     '\'d\'], ({\'x\': 1, \'y\': 2},), {})]", builtins.bool:True)',
 'tree-recorded|coords-tuple|xy': "list(dict{builtins.str:'type': builtins.str:'DataTree', "
                                  "builtins.str:'name': builtins.NoneType:None, "
                                  "builtins.str:'paths': list(builtins.str:'/'), "
                                  "builtins.str:'nodes': dict{builtins.str:'/': "
                                  "dict{builtins.str:'type': builtins.str:'Dataset', "
                                  "builtins.str:'sizes': dict{builtins.str:'x': builtins.int:3, "
                                  "builtins.str:'y': builtins.int:4}, builtins.str:'data_vars': "
                                  "dict{builtins.str:'d': dict{builtins.str:'dims': "
                                  "tuple(builtins.str:'x', builtins.str:'y'), "
                                  "builtins.str:'dtype': builtins.str:'int64', "
                                  "builtins.str:'attrs': dict{builtins.str:'b': "
                                  "builtins.str:'abc'}, builtins.str:'encoding': dict{}, "
                                  "builtins.str:'data-type': builtins.str:'ndarray', "
                                  "builtins.str:'values': ndarray[<i8|(3, "
                                  '4)|00000000000000000100000000000000020000000000000003000000000000000400000000000000050000000000000006000000000000000700000000000000080000000000000009000000000000000a000000000000000b00000000000000]}}, '
                                  "builtins.str:'coords': dict{builtins.str:'c': "
                                  "dict{builtins.str:'dims': tuple(builtins.str:'x'), "
                                  "builtins.str:'dtype': builtins.str:'int8', "
                                  "builtins.str:'attrs': dict{builtins.str:'a': builtins.int:1}, "
                                  "builtins.str:'encoding': dict{}, builtins.str:'data-type': "
                                  "builtins.str:'ndarray', builtins.str:'values': "
                                  "ndarray[|i1|(3,)|010203]}}, builtins.str:'attrs': "
                                  'dict{builtins.str:\'chunked_with\': builtins.str:"(({\'x\': 1, '
                                  '\'y\': 2},), {})"}, builtins.str:\'encoding\': dict{}}}}, '
                                  'builtins.str:"[([\'c\', \'d\'], ({\'x\': 1, \'y\': 2},), {}), '
                                  '([\'c\', \'d\'], ({\'x\': 1, \'y\': 2},), {})]", '
                                  'builtins.bool:True)',
 'dataset|coords-tuple|yx': "list(raise builtins.ImportError: chunk manager 'dask' is not "
                            "available. Please make sure 'dask' is installed and importable., "
                            "builtins.str:'None', builtins.bool:True)",
 'tree|coords-tuple|yx': "list(raise builtins.ImportError: chunk manager 'dask' is not available. "
                         "Please make sure 'dask' is installed and importable., "
                         "builtins.str:'None', builtins.bool:True)",
 'dataset-recorded|coords-tuple|yx': "list(dict{builtins.str:'type': builtins.str:'Dataset', "
                                     "builtins.str:'sizes': dict{builtins.str:'x': builtins.int:3, "
                                     "builtins.str:'y': builtins.int:4}, builtins.str:'data_vars': "
                                     "dict{builtins.str:'d': dict{builtins.str:'dims': "
                                     "tuple(builtins.str:'x', builtins.str:'y'), "
                                     "builtins.str:'dtype': builtins.str:'int64', "
                                     "builtins.str:'attrs': dict{builtins.str:'b': "
                                     "builtins.str:'abc'}, builtins.str:'encoding': dict{}, "
                                     "builtins.str:'data-type': builtins.str:'ndarray', "
                                     "builtins.str:'values': ndarray[<i8|(3, "
                                     '4)|00000000000000000100000000000000020000000000000003000000000000000400000000000000050000000000000006000000000000000700000000000000080000000000000009000000000000000a000000000000000b00000000000000]}}, '
                                     "builtins.str:'coords': dict{builtins.str:'c': "
                                     "dict{builtins.str:'dims': tuple(builtins.str:'x'), "
                                     "builtins.str:'dtype': builtins.str:'int8', "
                                     "builtins.str:'attrs': dict{builtins.str:'a': "
                                     "builtins.int:1}, builtins.str:'encoding': dict{}, "
                                     "builtins.str:'data-type': builtins.str:'ndarray', "
                                     "builtins.str:'values': ndarray[|i1|(3,)|010203]}}, "
                                     "builtins.str:'attrs': dict{builtins.str:'chunked_with': "
                                     'builtins.str:"(({\'y\': 2, \'x\': -1},), {})"}, '
                                     'builtins.str:\'encoding\': dict{}}, builtins.str:"[([\'c\', '
                                     '\'d\'], ({\'y\': 2, \'x\': -1},), {})]", builtins.bool:True)',
 'tree-recorded|coords-tuple|yx': "list(dict{builtins.str:'type': builtins.str:'DataTree', "
                                  "builtins.str:'name': builtins.NoneType:None, "
                                  "builtins.str:'paths': list(builtins.str:'/'), "
                                  "builtins.str:'nodes': dict{builtins.str:'/': "
                                  "dict{builtins.str:'type': builtins.str:'Dataset', "
                                  "builtins.str:'sizes': dict{builtins.str:'x': builtins.int:3, "
                                  "builtins.str:'y': builtins.int:4}, builtins.str:'data_vars': "
                                  "dict{builtins.str:'d': dict{builtins.str:'dims': "
                                  "tuple(builtins.str:'x', builtins.str:'y'), "
                                  "builtins.str:'dtype': builtins.str:'int64', "
                                  "builtins.str:'attrs': dict{builtins.str:'b': "
                                  "builtins.str:'abc'}, builtins.str:'encoding': dict{}, "
                                  "builtins.str:'data-type': builtins.str:'ndarray', "
                                  "builtins.str:'values': ndarray[<i8|(3, "
                                  '4)|00000000000000000100000000000000020000000000000003000000000000000400000000000000050000000000000006000000000000000700000000000000080000000000000009000000000000000a000000000000000b00000000000000]}}, '
                                  "builtins.str:'coords': dict{builtins.str:'c': "
                                  "dict{builtins.str:'dims': tuple(builtins.str:'x'), "
                                  "builtins.str:'dtype': builtins.str:'int8', "
                                  "builtins.str:'attrs': dict{builtins.str:'a': builtins.int:1}, "
                                  "builtins.str:'encoding': dict{}, builtins.str:'data-type': "
                                  "builtins.str:'ndarray', builtins.str:'values': "
                                  "ndarray[|i1|(3,)|010203]}}, builtins.str:'attrs': "
                                  'dict{builtins.str:\'chunked_with\': builtins.str:"(({\'y\': 2, '
                                  '\'x\': -1},), {})"}, builtins.str:\'encoding\': dict{}}}}, '
                                  'builtins.str:"[([\'c\', \'d\'], ({\'y\': 2, \'x\': -1},), {}), '
                                  '([\'c\', \'d\'], ({\'y\': 2, \'x\': -1},), {})]", '
                                  'builtins.bool:True)',
 'dataset|coords-tuple|unknown': "list(raise builtins.ImportError: chunk manager 'dask' is not "
                                 "available. Please make sure 'dask' is installed and importable., "
                                 "builtins.str:'None', builtins.bool:True)",
 'tree|coords-tuple|unknown': "list(raise builtins.ImportError: chunk manager 'dask' is not "
                              "available. Please make sure 'dask' is installed and importable., "
                              "builtins.str:'None', builtins.bool:True)",
 'dataset-recorded|coords-tuple|unknown': "list(dict{builtins.str:'type': builtins.str:'Dataset', "
                                          "builtins.str:'sizes': dict{builtins.str:'x': "
                                          "builtins.int:3, builtins.str:'y': builtins.int:4}, "
                                          "builtins.str:'data_vars': dict{builtins.str:'d': "
                                          "dict{builtins.str:'dims': tuple(builtins.str:'x', "
                                          "builtins.str:'y'), builtins.str:'dtype': "
                                          "builtins.str:'int64', builtins.str:'attrs': "
                                          "dict{builtins.str:'b': builtins.str:'abc'}, "
                                          "builtins.str:'encoding': dict{}, "
                                          "builtins.str:'data-type': builtins.str:'ndarray', "
                                          "builtins.str:'values': ndarray[<i8|(3, "
                                          '4)|00000000000000000100000000000000020000000000000003000000000000000400000000000000050000000000000006000000000000000700000000000000080000000000000009000000000000000a000000000000000b00000000000000]}}, '
                                          "builtins.str:'coords': dict{builtins.str:'c': "
                                          "dict{builtins.str:'dims': tuple(builtins.str:'x'), "
                                          "builtins.str:'dtype': builtins.str:'int8', "
                                          "builtins.str:'attrs': dict{builtins.str:'a': "
                                          "builtins.int:1}, builtins.str:'encoding': dict{}, "
                                          "builtins.str:'data-type': builtins.str:'ndarray', "
                                          "builtins.str:'values': ndarray[|i1|(3,)|010203]}}, "
                                          "builtins.str:'attrs': dict{builtins.str:'chunked_with': "
                                          "builtins.str:'(({},), {})'}, builtins.str:'encoding': "
                                          'dict{}}, builtins.str:"[([\'c\', \'d\'], ({},), {})]", '
                                          'builtins.bool:True)',
 'tree-recorded|coords-tuple|unknown': "list(dict{builtins.str:'type': builtins.str:'DataTree', "
                                       "builtins.str:'name': builtins.NoneType:None, "
                                       "builtins.str:'paths': list(builtins.str:'/'), "
                                       "builtins.str:'nodes': dict{builtins.str:'/': "
                                       "dict{builtins.str:'type': builtins.str:'Dataset', "
                                       "builtins.str:'sizes': dict{builtins.str:'x': "
                                       "builtins.int:3, builtins.str:'y': builtins.int:4}, "
                                       "builtins.str:'data_vars': dict{builtins.str:'d': "
                                       "dict{builtins.str:'dims': tuple(builtins.str:'x', "
                                       "builtins.str:'y'), builtins.str:'dtype': "
                                       "builtins.str:'int64', builtins.str:'attrs': "
                                       "dict{builtins.str:'b': builtins.str:'abc'}, "
                                       "builtins.str:'encoding': dict{}, builtins.str:'data-type': "
                                       "builtins.str:'ndarray', builtins.str:'values': "
                                       'ndarray[<i8|(3, '
                                       '4)|00000000000000000100000000000000020000000000000003000000000000000400000000000000050000000000000006000000000000000700000000000000080000000000000009000000000000000a000000000000000b00000000000000]}}, '
                                       "builtins.str:'coords': dict{builtins.str:'c': "
                                       "dict{builtins.str:'dims': tuple(builtins.str:'x'), "
                                       "builtins.str:'dtype': builtins.str:'int8', "
                                       "builtins.str:'attrs': dict{builtins.str:'a': "
                                       "builtins.int:1}, builtins.str:'encoding': dict{}, "
                                       "builtins.str:'data-type': builtins.str:'ndarray', "
                                       "builtins.str:'values': ndarray[|i1|(3,)|010203]}}, "
                                       "builtins.str:'attrs': dict{builtins.str:'chunked_with': "
                                       "builtins.str:'(({},), {})'}, builtins.str:'encoding': "
                                       'dict{}}}}, builtins.str:"[([\'c\', \'d\'], ({},), {}), '
                                       '([\'c\', \'d\'], ({},), {})]", builtins.bool:True)',
 'dataset|coords-tuple|mixed': "list(raise builtins.ImportError: chunk manager 'dask' is not "
                               "available. Please make sure 'dask' is installed and importable., "
                               "builtins.str:'None', builtins.bool:True)",
 'tree|coords-tuple|mixed': "list(raise builtins.ImportError: chunk manager 'dask' is not "
                            "available. Please make sure 'dask' is installed and importable., "
                            "builtins.str:'None', builtins.bool:True)",
 'dataset-recorded|coords-tuple|mixed': "list(dict{builtins.str:'type': builtins.str:'Dataset', "
                                        "builtins.str:'sizes': dict{builtins.str:'x': "
                                        "builtins.int:3, builtins.str:'y': builtins.int:4}, "
                                        "builtins.str:'data_vars': dict{builtins.str:'d': "
                                        "dict{builtins.str:'dims': tuple(builtins.str:'x', "
                                        "builtins.str:'y'), builtins.str:'dtype': "
                                        "builtins.str:'int64', builtins.str:'attrs': "
                                        "dict{builtins.str:'b': builtins.str:'abc'}, "
                                        "builtins.str:'encoding': dict{}, "
                                        "builtins.str:'data-type': builtins.str:'ndarray', "
                                        "builtins.str:'values': ndarray[<i8|(3, "
                                        '4)|00000000000000000100000000000000020000000000000003000000000000000400000000000000050000000000000006000000000000000700000000000000080000000000000009000000000000000a000000000000000b00000000000000]}}, '
                                        "builtins.str:'coords': dict{builtins.str:'c': "
                                        "dict{builtins.str:'dims': tuple(builtins.str:'x'), "
                                        "builtins.str:'dtype': builtins.str:'int8', "
                                        "builtins.str:'attrs': dict{builtins.str:'a': "
                                        "builtins.int:1}, builtins.str:'encoding': dict{}, "
                                        "builtins.str:'data-type': builtins.str:'ndarray', "
                                        "builtins.str:'values': ndarray[|i1|(3,)|010203]}}, "
                                        "builtins.str:'attrs': dict{builtins.str:'chunked_with': "
                                        'builtins.str:"(({\'x\': \'auto\'},), {})"}, '
                                        "builtins.str:'encoding': dict{}}, "
                                        'builtins.str:"[([\'c\', \'d\'], ({\'x\': \'auto\'},), '
                                        '{})]", builtins.bool:True)',
 'tree-recorded|coords-tuple|mixed': "list(dict{builtins.str:'type': builtins.str:'DataTree', "
                                     "builtins.str:'name': builtins.NoneType:None, "
                                     "builtins.str:'paths': list(builtins.str:'/'), "
                                     "builtins.str:'nodes': dict{builtins.str:'/': "
                                     "dict{builtins.str:'type': builtins.str:'Dataset', "
                                     "builtins.str:'sizes': dict{builtins.str:'x': builtins.int:3, "
                                     "builtins.str:'y': builtins.int:4}, builtins.str:'data_vars': "
                                     "dict{builtins.str:'d': dict{builtins.str:'dims': "
                                     "tuple(builtins.str:'x', builtins.str:'y'), "
                                     "builtins.str:'dtype': builtins.str:'int64', "
                                     "builtins.str:'attrs': dict{builtins.str:'b': "
                                     "builtins.str:'abc'}, builtins.str:'encoding': dict{}, "
                                     "builtins.str:'data-type': builtins.str:'ndarray', "
                                     "builtins.str:'values': ndarray[<i8|(3, "
                                     '4)|00000000000000000100000000000000020000000000000003000000000000000400000000000000050000000000000006000000000000000700000000000000080000000000000009000000000000000a000000000000000b00000000000000]}}, '
                                     "builtins.str:'coords': dict{builtins.str:'c': "
                                     "dict{builtins.str:'dims': tuple(builtins.str:'x'), "
                                     "builtins.str:'dtype': builtins.str:'int8', "
                                     "builtins.str:'attrs': dict{builtins.str:'a': "
                                     "builtins.int:1}, builtins.str:'encoding': dict{}, "
                                     "builtins.str:'data-type': builtins.str:'ndarray', "
                                     "builtins.str:'values': ndarray[|i1|(3,)|010203]}}, "
                                     "builtins.str:'attrs': dict{builtins.str:'chunked_with': "
                                     'builtins.str:"(({\'x\': \'auto\'},), {})"}, '
                                     "builtins.str:'encoding': dict{}}}}, "
                                     'builtins.str:"[([\'c\', \'d\'], ({\'x\': \'auto\'},), {}), '
                                     '([\'c\', \'d\'], ({\'x\': \'auto\'},), {})]", '
                                     'builtins.bool:True)',
 'dataset|coords-tuple|int': "list(raise builtins.AttributeError: 'int' object has no attribute "
                             "'items', builtins.str:'None', builtins.bool:True)",
 'tree|coords-tuple|int': "list(raise builtins.AttributeError: 'int' object has no attribute "
                          "'items', builtins.str:'None', builtins.bool:True)",
 'dataset-recorded|coords-tuple|int': "list(raise builtins.AttributeError: 'int' object has no "
                                      "attribute 'items', builtins.str:'[]', builtins.bool:True)",
 'tree-recorded|coords-tuple|int': "list(raise builtins.AttributeError: 'int' object has no "
                                   "attribute 'items', builtins.str:'[]', builtins.bool:True)",
 'dataset|coords-tuple|str': "list(raise builtins.AttributeError: 'str' object has no attribute "
                             "'items', builtins.str:'None', builtins.bool:True)",
 'tree|coords-tuple|str': "list(raise builtins.AttributeError: 'str' object has no attribute "
                          "'items', builtins.str:'None', builtins.bool:True)",
 'dataset-recorded|coords-tuple|str': "list(raise builtins.AttributeError: 'str' object has no "
                                      "attribute 'items', builtins.str:'[]', builtins.bool:True)",
 'tree-recorded|coords-tuple|str': "list(raise builtins.AttributeError: 'str' object has no "
                                   "attribute 'items', builtins.str:'[]', builtins.bool:True)",
 'dataset|coords-tuple|list': "list(raise builtins.AttributeError: 'list' object has no attribute "
                              "'items', builtins.str:'None', builtins.bool:True)",
 'tree|coords-tuple|list': "list(raise builtins.AttributeError: 'list' object has no attribute "
                           "'items', builtins.str:'None', builtins.bool:True)",
 'dataset-recorded|coords-tuple|list': "list(raise builtins.AttributeError: 'list' object has no "
                                       "attribute 'items', builtins.str:'[]', builtins.bool:True)",
 'tree-recorded|coords-tuple|list': "list(raise builtins.AttributeError: 'list' object has no "
                                    "attribute 'items', builtins.str:'[]', builtins.bool:True)",
 'dataset|coords-tuple|tuple-keys': "list(raise builtins.ImportError: chunk manager 'dask' is not "
                                    "available. Please make sure 'dask' is installed and "
                                    "importable., builtins.str:'None', builtins.bool:True)",
 'tree|coords-tuple|tuple-keys': "list(raise builtins.ImportError: chunk manager 'dask' is not "
                                 "available. Please make sure 'dask' is installed and importable., "
                                 "builtins.str:'None', builtins.bool:True)",
 'dataset-recorded|coords-tuple|tuple-keys': "list(dict{builtins.str:'type': "
                                             "builtins.str:'Dataset', builtins.str:'sizes': "
                                             "dict{builtins.str:'x': builtins.int:3, "
                                             "builtins.str:'y': builtins.int:4}, "
                                             "builtins.str:'data_vars': dict{builtins.str:'d': "
                                             "dict{builtins.str:'dims': tuple(builtins.str:'x', "
                                             "builtins.str:'y'), builtins.str:'dtype': "
                                             "builtins.str:'int64', builtins.str:'attrs': "
                                             "dict{builtins.str:'b': builtins.str:'abc'}, "
                                             "builtins.str:'encoding': dict{}, "
                                             "builtins.str:'data-type': builtins.str:'ndarray', "
                                             "builtins.str:'values': ndarray[<i8|(3, "
                                             '4)|00000000000000000100000000000000020000000000000003000000000000000400000000000000050000000000000006000000000000000700000000000000080000000000000009000000000000000a000000000000000b00000000000000]}}, '
                                             "builtins.str:'coords': dict{builtins.str:'c': "
                                             "dict{builtins.str:'dims': tuple(builtins.str:'x'), "
                                             "builtins.str:'dtype': builtins.str:'int8', "
                                             "builtins.str:'attrs': dict{builtins.str:'a': "
                                             "builtins.int:1}, builtins.str:'encoding': dict{}, "
                                             "builtins.str:'data-type': builtins.str:'ndarray', "
                                             "builtins.str:'values': ndarray[|i1|(3,)|010203]}}, "
                                             "builtins.str:'attrs': "
                                             "dict{builtins.str:'chunked_with': "
                                             "builtins.str:'(({},), {})'}, "
                                             "builtins.str:'encoding': dict{}}, "
                                             'builtins.str:"[([\'c\', \'d\'], ({},), {})]", '
                                             'builtins.bool:True)',
 'tree-recorded|coords-tuple|tuple-keys': "list(dict{builtins.str:'type': builtins.str:'DataTree', "
                                          "builtins.str:'name': builtins.NoneType:None, "
                                          "builtins.str:'paths': list(builtins.str:'/'), "
                                          "builtins.str:'nodes': dict{builtins.str:'/': "
                                          "dict{builtins.str:'type': builtins.str:'Dataset', "
                                          "builtins.str:'sizes': dict{builtins.str:'x': "
                                          "builtins.int:3, builtins.str:'y': builtins.int:4}, "
                                          "builtins.str:'data_vars': dict{builtins.str:'d': "
                                          "dict{builtins.str:'dims': tuple(builtins.str:'x', "
                                          "builtins.str:'y'), builtins.str:'dtype': "
                                          "builtins.str:'int64', builtins.str:'attrs': "
                                          "dict{builtins.str:'b': builtins.str:'abc'}, "
                                          "builtins.str:'encoding': dict{}, "
                                          "builtins.str:'data-type': builtins.str:'ndarray', "
                                          "builtins.str:'values': ndarray[<i8|(3, "
                                          '4)|00000000000000000100000000000000020000000000000003000000000000000400000000000000050000000000000006000000000000000700000000000000080000000000000009000000000000000a000000000000000b00000000000000]}}, '
                                          "builtins.str:'coords': dict{builtins.str:'c': "
                                          "dict{builtins.str:'dims': tuple(builtins.str:'x'), "
                                          "builtins.str:'dtype': builtins.str:'int8', "
                                          "builtins.str:'attrs': dict{builtins.str:'a': "
                                          "builtins.int:1}, builtins.str:'encoding': dict{}, "
                                          "builtins.str:'data-type': builtins.str:'ndarray', "
                                          "builtins.str:'values': ndarray[|i1|(3,)|010203]}}, "
                                          "builtins.str:'attrs': dict{builtins.str:'chunked_with': "
                                          "builtins.str:'(({},), {})'}, builtins.str:'encoding': "
                                          'dict{}}}}, builtins.str:"[([\'c\', \'d\'], ({},), {}), '
                                          '([\'c\', \'d\'], ({},), {})]", builtins.bool:True)',
 'dataset|coords-empty|none': "list(dict{builtins.str:'type': builtins.str:'Dataset', "
                              "builtins.str:'sizes': dict{builtins.str:'x': builtins.int:3}, "
                              "builtins.str:'data_vars': dict{builtins.str:'c': "
                              "dict{builtins.str:'dims': tuple(builtins.str:'x'), "
                              "builtins.str:'dtype': builtins.str:'int8', builtins.str:'attrs': "
                              "dict{builtins.str:'a': builtins.int:1}, builtins.str:'encoding': "
                              "dict{}, builtins.str:'data-type': builtins.str:'ndarray', "
                              "builtins.str:'values': ndarray[|i1|(3,)|010203]}}, "
                              "builtins.str:'coords': dict{}, builtins.str:'attrs': dict{}, "
                              "builtins.str:'encoding': dict{}}, builtins.str:'None', "
                              'builtins.bool:True)',
 'tree|coords-empty|none': "list(dict{builtins.str:'type': builtins.str:'DataTree', "
                           "builtins.str:'name': builtins.NoneType:None, builtins.str:'paths': "
                           "list(builtins.str:'/'), builtins.str:'nodes': dict{builtins.str:'/': "
                           "dict{builtins.str:'type': builtins.str:'Dataset', "
                           "builtins.str:'sizes': dict{builtins.str:'x': builtins.int:3}, "
                           "builtins.str:'data_vars': dict{builtins.str:'c': "
                           "dict{builtins.str:'dims': tuple(builtins.str:'x'), "
                           "builtins.str:'dtype': builtins.str:'int8', builtins.str:'attrs': "
                           "dict{builtins.str:'a': builtins.int:1}, builtins.str:'encoding': "
                           "dict{}, builtins.str:'data-type': builtins.str:'ndarray', "
                           "builtins.str:'values': ndarray[|i1|(3,)|010203]}}, "
                           "builtins.str:'coords': dict{}, builtins.str:'attrs': dict{}, "
                           "builtins.str:'encoding': dict{}}}}, builtins.str:'None', "
                           'builtins.bool:True)',
 'dataset|coords-empty|empty': "list(raise builtins.ImportError: chunk manager 'dask' is not "
                               "available. Please make sure 'dask' is installed and importable., "
                               "builtins.str:'None', builtins.bool:True)",
 'tree|coords-empty|empty': "list(raise builtins.ImportError: chunk manager 'dask' is not "
                            "available. Please make sure 'dask' is installed and importable., "
                            "builtins.str:'None', builtins.bool:True)",
 'dataset-recorded|coords-empty|empty': "list(dict{builtins.str:'type': builtins.str:'Dataset', "
                                        "builtins.str:'sizes': dict{builtins.str:'x': "
                                        "builtins.int:3}, builtins.str:'data_vars': "
                                        "dict{builtins.str:'c': dict{builtins.str:'dims': "
                                        "tuple(builtins.str:'x'), builtins.str:'dtype': "
                                        "builtins.str:'int8', builtins.str:'attrs': "
                                        "dict{builtins.str:'a': builtins.int:1}, "
                                        "builtins.str:'encoding': dict{}, "
                                        "builtins.str:'data-type': builtins.str:'ndarray', "
                                        "builtins.str:'values': ndarray[|i1|(3,)|010203]}}, "
                                        "builtins.str:'coords': dict{}, builtins.str:'attrs': "
                                        "dict{builtins.str:'chunked_with': builtins.str:'(({},), "
                                        "{})'}, builtins.str:'encoding': dict{}}, "
                                        'builtins.str:"[([\'c\'], ({},), {})]", '
                                        'builtins.bool:True)',
 'tree-recorded|coords-empty|empty': "list(dict{builtins.str:'type': builtins.str:'DataTree', "
                                     "builtins.str:'name': builtins.NoneType:None, "
                                     "builtins.str:'paths': list(builtins.str:'/'), "
                                     "builtins.str:'nodes': dict{builtins.str:'/': "
                                     "dict{builtins.str:'type': builtins.str:'Dataset', "
                                     "builtins.str:'sizes': dict{builtins.str:'x': "
                                     "builtins.int:3}, builtins.str:'data_vars': "
                                     "dict{builtins.str:'c': dict{builtins.str:'dims': "
                                     "tuple(builtins.str:'x'), builtins.str:'dtype': "
                                     "builtins.str:'int8', builtins.str:'attrs': "
                                     "dict{builtins.str:'a': builtins.int:1}, "
                                     "builtins.str:'encoding': dict{}, builtins.str:'data-type': "
                                     "builtins.str:'ndarray', builtins.str:'values': "
                                     "ndarray[|i1|(3,)|010203]}}, builtins.str:'coords': dict{}, "
                                     "builtins.str:'attrs': dict{builtins.str:'chunked_with': "
                                     "builtins.str:'(({},), {})'}, builtins.str:'encoding': "
                                     'dict{}}}}, builtins.str:"[([\'c\'], ({},), {}), ([\'c\'], '
                                     '({},), {})]", builtins.bool:True)',
 'dataset|coords-empty|x': "list(raise builtins.ImportError: chunk manager 'dask' is not "
                           "available. Please make sure 'dask' is installed and importable., "
                           "builtins.str:'None', builtins.bool:True)",
 'tree|coords-empty|x': "list(raise builtins.ImportError: chunk manager 'dask' is not available. "
                        "Please make sure 'dask' is installed and importable., "
                        "builtins.str:'None', builtins.bool:True)",
 'dataset-recorded|coords-empty|x': "list(dict{builtins.str:'type': builtins.str:'Dataset', "
                                    "builtins.str:'sizes': dict{builtins.str:'x': builtins.int:3}, "
                                    "builtins.str:'data_vars': dict{builtins.str:'c': "
                                    "dict{builtins.str:'dims': tuple(builtins.str:'x'), "
                                    "builtins.str:'dtype': builtins.str:'int8', "
                                    "builtins.str:'attrs': dict{builtins.str:'a': builtins.int:1}, "
                                    "builtins.str:'encoding': dict{}, builtins.str:'data-type': "
                                    "builtins.str:'ndarray', builtins.str:'values': "
                                    "ndarray[|i1|(3,)|010203]}}, builtins.str:'coords': dict{}, "
                                    "builtins.str:'attrs': dict{builtins.str:'chunked_with': "
                                    'builtins.str:"(({\'x\': 1},), {})"}, '
                                    'builtins.str:\'encoding\': dict{}}, builtins.str:"[([\'c\'], '
                                    '({\'x\': 1},), {})]", builtins.bool:True)',
 'tree-recorded|coords-empty|x': "list(dict{builtins.str:'type': builtins.str:'DataTree', "
                                 "builtins.str:'name': builtins.NoneType:None, "
                                 "builtins.str:'paths': list(builtins.str:'/'), "
                                 "builtins.str:'nodes': dict{builtins.str:'/': "
                                 "dict{builtins.str:'type': builtins.str:'Dataset', "
                                 "builtins.str:'sizes': dict{builtins.str:'x': builtins.int:3}, "
                                 "builtins.str:'data_vars': dict{builtins.str:'c': "
                                 "dict{builtins.str:'dims': tuple(builtins.str:'x'), "
                                 "builtins.str:'dtype': builtins.str:'int8', builtins.str:'attrs': "
                                 "dict{builtins.str:'a': builtins.int:1}, builtins.str:'encoding': "
                                 "dict{}, builtins.str:'data-type': builtins.str:'ndarray', "
                                 "builtins.str:'values': ndarray[|i1|(3,)|010203]}}, "
                                 "builtins.str:'coords': dict{}, builtins.str:'attrs': "
                                 'dict{builtins.str:\'chunked_with\': builtins.str:"(({\'x\': '
                                 '1},), {})"}, builtins.str:\'encoding\': dict{}}}}, '
                                 'builtins.str:"[([\'c\'], ({\'x\': 1},), {}), ([\'c\'], ({\'x\': '
                                 '1},), {})]", builtins.bool:True)',
 'dataset|coords-empty|xy': "list(raise builtins.ImportError: chunk manager 'dask' is not "
                            "available. Please make sure 'dask' is installed and importable., "
                            "builtins.str:'None', builtins.bool:True)",
 'tree|coords-empty|xy': "list(raise builtins.ImportError: chunk manager 'dask' is not available. "
                         "Please make sure 'dask' is installed and importable., "
                         "builtins.str:'None', builtins.bool:True)",
 'dataset-recorded|coords-empty|xy': "list(dict{builtins.str:'type': builtins.str:'Dataset', "
                                     "builtins.str:'sizes': dict{builtins.str:'x': "
                                     "builtins.int:3}, builtins.str:'data_vars': "
                                     "dict{builtins.str:'c': dict{builtins.str:'dims': "
                                     "tuple(builtins.str:'x'), builtins.str:'dtype': "
                                     "builtins.str:'int8', builtins.str:'attrs': "
                                     "dict{builtins.str:'a': builtins.int:1}, "
                                     "builtins.str:'encoding': dict{}, builtins.str:'data-type': "
                                     "builtins.str:'ndarray', builtins.str:'values': "
                                     "ndarray[|i1|(3,)|010203]}}, builtins.str:'coords': dict{}, "
                                     "builtins.str:'attrs': dict{builtins.str:'chunked_with': "
                                     'builtins.str:"(({\'x\': 1},), {})"}, '
                                     'builtins.str:\'encoding\': dict{}}, builtins.str:"[([\'c\'], '
                                     '({\'x\': 1},), {})]", builtins.bool:True)',
 'tree-recorded|coords-empty|xy': "list(dict{builtins.str:'type': builtins.str:'DataTree', "
                                  "builtins.str:'name': builtins.NoneType:None, "
                                  "builtins.str:'paths': list(builtins.str:'/'), "
                                  "builtins.str:'nodes': dict{builtins.str:'/': "
                                  "dict{builtins.str:'type': builtins.str:'Dataset', "
                                  "builtins.str:'sizes': dict{builtins.str:'x': builtins.int:3}, "
                                  "builtins.str:'data_vars': dict{builtins.str:'c': "
                                  "dict{builtins.str:'dims': tuple(builtins.str:'x'), "
                                  "builtins.str:'dtype': builtins.str:'int8', "
                                  "builtins.str:'attrs': dict{builtins.str:'a': builtins.int:1}, "
                                  "builtins.str:'encoding': dict{}, builtins.str:'data-type': "
                                  "builtins.str:'ndarray', builtins.str:'values': "
                                  "ndarray[|i1|(3,)|010203]}}, builtins.str:'coords': dict{}, "
                                  "builtins.str:'attrs': dict{builtins.str:'chunked_with': "
                                  'builtins.str:"(({\'x\': 1},), {})"}, builtins.str:\'encoding\': '
                                  'dict{}}}}, builtins.str:"[([\'c\'], ({\'x\': 1},), {}), '
                                  '([\'c\'], ({\'x\': 1},), {})]", builtins.bool:True)',
 'dataset|coords-empty|yx': "list(raise builtins.ImportError: chunk manager 'dask' is not "
                            "available. Please make sure 'dask' is installed and importable., "
                            "builtins.str:'None', builtins.bool:True)",
 'tree|coords-empty|yx': "list(raise builtins.ImportError: chunk manager 'dask' is not available. "
                         "Please make sure 'dask' is installed and importable., "
                         "builtins.str:'None', builtins.bool:True)",
 'dataset-recorded|coords-empty|yx': "list(dict{builtins.str:'type': builtins.str:'Dataset', "
                                     "builtins.str:'sizes': dict{builtins.str:'x': "
                                     "builtins.int:3}, builtins.str:'data_vars': "
                                     "dict{builtins.str:'c': dict{builtins.str:'dims': "
                                     "tuple(builtins.str:'x'), builtins.str:'dtype': "
                                     "builtins.str:'int8', builtins.str:'attrs': "
                                     "dict{builtins.str:'a': builtins.int:1}, "
                                     "builtins.str:'encoding': dict{}, builtins.str:'data-type': "
                                     "builtins.str:'ndarray', builtins.str:'values': "
                                     "ndarray[|i1|(3,)|010203]}}, builtins.str:'coords': dict{}, "
                                     "builtins.str:'attrs': dict{builtins.str:'chunked_with': "
                                     'builtins.str:"(({\'x\': -1},), {})"}, '
                                     'builtins.str:\'encoding\': dict{}}, builtins.str:"[([\'c\'], '
                                     '({\'x\': -1},), {})]", builtins.bool:True)',
 'tree-recorded|coords-empty|yx': "list(dict{builtins.str:'type': builtins.str:'DataTree', "
                                  "builtins.str:'name': builtins.NoneType:None, "
                                  "builtins.str:'paths': list(builtins.str:'/'), "
                                  "builtins.str:'nodes': dict{builtins.str:'/': "
                                  "dict{builtins.str:'type': builtins.str:'Dataset', "
                                  "builtins.str:'sizes': dict{builtins.str:'x': builtins.int:3}, "
                                  "builtins.str:'data_vars': dict{builtins.str:'c': "
                                  "dict{builtins.str:'dims': tuple(builtins.str:'x'), "
                                  "builtins.str:'dtype': builtins.str:'int8', "
                                  "builtins.str:'attrs': dict{builtins.str:'a': builtins.int:1}, "
                                  "builtins.str:'encoding': dict{}, builtins.str:'data-type': "
                                  "builtins.str:'ndarray', builtins.str:'values': "
                                  "ndarray[|i1|(3,)|010203]}}, builtins.str:'coords': dict{}, "
                                  "builtins.str:'attrs': dict{builtins.str:'chunked_with': "
                                  'builtins.str:"(({\'x\': -1},), {})"}, '
                                  'builtins.str:\'encoding\': dict{}}}}, builtins.str:"[([\'c\'], '
                                  '({\'x\': -1},), {}), ([\'c\'], ({\'x\': -1},), {})]", '
                                  'builtins.bool:True)',
 'dataset|coords-empty|unknown': "list(raise builtins.ImportError: chunk manager 'dask' is not "
                                 "available. Please make sure 'dask' is installed and importable., "
                                 "builtins.str:'None', builtins.bool:True)",
 'tree|coords-empty|unknown': "list(raise builtins.ImportError: chunk manager 'dask' is not "
                              "available. Please make sure 'dask' is installed and importable., "
                              "builtins.str:'None', builtins.bool:True)",
 'dataset-recorded|coords-empty|unknown': "list(dict{builtins.str:'type': builtins.str:'Dataset', "
                                          "builtins.str:'sizes': dict{builtins.str:'x': "
                                          "builtins.int:3}, builtins.str:'data_vars': "
                                          "dict{builtins.str:'c': dict{builtins.str:'dims': "
                                          "tuple(builtins.str:'x'), builtins.str:'dtype': "
                                          "builtins.str:'int8', builtins.str:'attrs': "
                                          "dict{builtins.str:'a': builtins.int:1}, "
                                          "builtins.str:'encoding': dict{}, "
                                          "builtins.str:'data-type': builtins.str:'ndarray', "
                                          "builtins.str:'values': ndarray[|i1|(3,)|010203]}}, "
                                          "builtins.str:'coords': dict{}, builtins.str:'attrs': "
                                          "dict{builtins.str:'chunked_with': builtins.str:'(({},), "
                                          "{})'}, builtins.str:'encoding': dict{}}, "
                                          'builtins.str:"[([\'c\'], ({},), {})]", '
                                          'builtins.bool:True)',
 'tree-recorded|coords-empty|unknown': "list(dict{builtins.str:'type': builtins.str:'DataTree', "
                                       "builtins.str:'name': builtins.NoneType:None, "
                                       "builtins.str:'paths': list(builtins.str:'/'), "
                                       "builtins.str:'nodes': dict{builtins.str:'/': "
                                       "dict{builtins.str:'type': builtins.str:'Dataset', "
                                       "builtins.str:'sizes': dict{builtins.str:'x': "
                                       "builtins.int:3}, builtins.str:'data_vars': "
                                       "dict{builtins.str:'c': dict{builtins.str:'dims': "
                                       "tuple(builtins.str:'x'), builtins.str:'dtype': "
                                       "builtins.str:'int8', builtins.str:'attrs': "
                                       "dict{builtins.str:'a': builtins.int:1}, "
                                       "builtins.str:'encoding': dict{}, builtins.str:'data-type': "
                                       "builtins.str:'ndarray', builtins.str:'values': "
                                       "ndarray[|i1|(3,)|010203]}}, builtins.str:'coords': dict{}, "
                                       "builtins.str:'attrs': dict{builtins.str:'chunked_with': "
                                       "builtins.str:'(({},), {})'}, builtins.str:'encoding': "
                                       'dict{}}}}, builtins.str:"[([\'c\'], ({},), {}), ([\'c\'], '
                                       '({},), {})]", builtins.bool:True)',
 'dataset|coords-empty|mixed': "list(raise builtins.ImportError: chunk manager 'dask' is not "
                               "available. Please make sure 'dask' is installed and importable., "
                               "builtins.str:'None', builtins.bool:True)",
 'tree|coords-empty|mixed': "list(raise builtins.ImportError: chunk manager 'dask' is not "
                            "available. Please make sure 'dask' is installed and importable., "
                            "builtins.str:'None', builtins.bool:True)",
 'dataset-recorded|coords-empty|mixed': "list(dict{builtins.str:'type': builtins.str:'Dataset', "
                                        "builtins.str:'sizes': dict{builtins.str:'x': "
                                        "builtins.int:3}, builtins.str:'data_vars': "
                                        "dict{builtins.str:'c': dict{builtins.str:'dims': "
                                        "tuple(builtins.str:'x'), builtins.str:'dtype': "
                                        "builtins.str:'int8', builtins.str:'attrs': "
                                        "dict{builtins.str:'a': builtins.int:1}, "
                                        "builtins.str:'encoding': dict{}, "
                                        "builtins.str:'data-type': builtins.str:'ndarray', "
                                        "builtins.str:'values': ndarray[|i1|(3,)|010203]}}, "
                                        "builtins.str:'coords': dict{}, builtins.str:'attrs': "
                                        "dict{builtins.str:'chunked_with': "
                                        'builtins.str:"(({\'x\': \'auto\'},), {})"}, '
                                        "builtins.str:'encoding': dict{}}, "
                                        'builtins.str:"[([\'c\'], ({\'x\': \'auto\'},), {})]", '
                                        'builtins.bool:True)',
 'tree-recorded|coords-empty|mixed': "list(dict{builtins.str:'type': builtins.str:'DataTree', "
                                     "builtins.str:'name': builtins.NoneType:None, "
                                     "builtins.str:'paths': list(builtins.str:'/'), "
                                     "builtins.str:'nodes': dict{builtins.str:'/': "
                                     "dict{builtins.str:'type': builtins.str:'Dataset', "
                                     "builtins.str:'sizes': dict{builtins.str:'x': "
                                     "builtins.int:3}, builtins.str:'data_vars': "
                                     "dict{builtins.str:'c': dict{builtins.str:'dims': "
                                     "tuple(builtins.str:'x'), builtins.str:'dtype': "
                                     "builtins.str:'int8', builtins.str:'attrs': "
                                     "dict{builtins.str:'a': builtins.int:1}, "
                                     "builtins.str:'encoding': dict{}, builtins.str:'data-type': "
                                     "builtins.str:'ndarray', builtins.str:'values': "
                                     "ndarray[|i1|(3,)|010203]}}, builtins.str:'coords': dict{}, "
                                     "builtins.str:'attrs': dict{builtins.str:'chunked_with': "
                                     'builtins.str:"(({\'x\': \'auto\'},), {})"}, '
                                     "builtins.str:'encoding': dict{}}}}, "
                                     'builtins.str:"[([\'c\'], ({\'x\': \'auto\'},), {}), '
                                     '([\'c\'], ({\'x\': \'auto\'},), {})]", builtins.bool:True)',
 'dataset|coords-empty|int': "list(raise builtins.AttributeError: 'int' object has no attribute "
                             "'items', builtins.str:'None', builtins.bool:True)",
 'tree|coords-empty|int': "list(raise builtins.AttributeError: 'int' object has no attribute "
                          "'items', builtins.str:'None', builtins.bool:True)",
 'dataset-recorded|coords-empty|int': "list(raise builtins.AttributeError: 'int' object has no "
                                      "attribute 'items', builtins.str:'[]', builtins.bool:True)",
 'tree-recorded|coords-empty|int': "list(raise builtins.AttributeError: 'int' object has no "
                                   "attribute 'items', builtins.str:'[]', builtins.bool:True)",
 'dataset|coords-empty|str': "list(raise builtins.AttributeError: 'str' object has no attribute "
                             "'items', builtins.str:'None', builtins.bool:True)",
 'tree|coords-empty|str': "list(raise builtins.AttributeError: 'str' object has no attribute "
                          "'items', builtins.str:'None', builtins.bool:True)",
 'dataset-recorded|coords-empty|str': "list(raise builtins.AttributeError: 'str' object has no "
                                      "attribute 'items', builtins.str:'[]', builtins.bool:True)",
 'tree-recorded|coords-empty|str': "list(raise builtins.AttributeError: 'str' object has no "
                                   "attribute 'items', builtins.str:'[]', builtins.bool:True)",
 'dataset|coords-empty|list': "list(raise builtins.AttributeError: 'list' object has no attribute "
                              "'items', builtins.str:'None', builtins.bool:True)",
 'tree|coords-empty|list': "list(raise builtins.AttributeError: 'list' object has no attribute "
                           "'items', builtins.str:'None', builtins.bool:True)",
 'dataset-recorded|coords-empty|list': "list(raise builtins.AttributeError: 'list' object has no "
                                       "attribute 'items', builtins.str:'[]', builtins.bool:True)",
 'tree-recorded|coords-empty|list': "list(raise builtins.AttributeError: 'list' object has no "
                                    "attribute 'items', builtins.str:'[]', builtins.bool:True)",
 'dataset|coords-empty|tuple-keys': "list(raise builtins.ImportError: chunk manager 'dask' is not "
                                    "available. Please make sure 'dask' is installed and "
                                    "importable., builtins.str:'None', builtins.bool:True)",
 'tree|coords-empty|tuple-keys': "list(raise builtins.ImportError: chunk manager 'dask' is not "
                                 "available. Please make sure 'dask' is installed and importable., "
                                 "builtins.str:'None', builtins.bool:True)",
 'dataset-recorded|coords-empty|tuple-keys': "list(dict{builtins.str:'type': "
                                             "builtins.str:'Dataset', builtins.str:'sizes': "
                                             "dict{builtins.str:'x': builtins.int:3}, "
                                             "builtins.str:'data_vars': dict{builtins.str:'c': "
                                             "dict{builtins.str:'dims': tuple(builtins.str:'x'), "
                                             "builtins.str:'dtype': builtins.str:'int8', "
                                             "builtins.str:'attrs': dict{builtins.str:'a': "
                                             "builtins.int:1}, builtins.str:'encoding': dict{}, "
                                             "builtins.str:'data-type': builtins.str:'ndarray', "
                                             "builtins.str:'values': ndarray[|i1|(3,)|010203]}}, "
                                             "builtins.str:'coords': dict{}, builtins.str:'attrs': "
                                             "dict{builtins.str:'chunked_with': "
                                             "builtins.str:'(({},), {})'}, "
                                             "builtins.str:'encoding': dict{}}, "
                                             'builtins.str:"[([\'c\'], ({},), {})]", '
                                             'builtins.bool:True)',
 'tree-recorded|coords-empty|tuple-keys': "list(dict{builtins.str:'type': builtins.str:'DataTree', "
                                          "builtins.str:'name': builtins.NoneType:None, "
                                          "builtins.str:'paths': list(builtins.str:'/'), "
                                          "builtins.str:'nodes': dict{builtins.str:'/': "
                                          "dict{builtins.str:'type': builtins.str:'Dataset', "
                                          "builtins.str:'sizes': dict{builtins.str:'x': "
                                          "builtins.int:3}, builtins.str:'data_vars': "
                                          "dict{builtins.str:'c': dict{builtins.str:'dims': "
                                          "tuple(builtins.str:'x'), builtins.str:'dtype': "
                                          "builtins.str:'int8', builtins.str:'attrs': "
                                          "dict{builtins.str:'a': builtins.int:1}, "
                                          "builtins.str:'encoding': dict{}, "
                                          "builtins.str:'data-type': builtins.str:'ndarray', "
                                          "builtins.str:'values': ndarray[|i1|(3,)|010203]}}, "
                                          "builtins.str:'coords': dict{}, builtins.str:'attrs': "
                                          "dict{builtins.str:'chunked_with': builtins.str:'(({},), "
                                          "{})'}, builtins.str:'encoding': dict{}}}}, "
                                          'builtins.str:"[([\'c\'], ({},), {}), ([\'c\'], ({},), '
                                          '{})]", builtins.bool:True)',
 'dataset|coords-none|none': 'list(raise builtins.ValueError: These variables cannot be found in '
                             "this dataset: [None], builtins.str:'None', builtins.bool:True)",
 'tree|coords-none|none': 'list(raise builtins.ValueError: These variables cannot be found in this '
                          "dataset: [None], builtins.str:'None', builtins.bool:True)",
 'dataset|coords-none|empty': 'list(raise builtins.ValueError: These variables cannot be found in '
                              "this dataset: [None], builtins.str:'None', builtins.bool:True)",
 'tree|coords-none|empty': 'list(raise builtins.ValueError: These variables cannot be found in '
                           "this dataset: [None], builtins.str:'None', builtins.bool:True)",
 'dataset-recorded|coords-none|empty': 'list(raise builtins.ValueError: These variables cannot be '
                                       "found in this dataset: [None], builtins.str:'[]', "
                                       'builtins.bool:True)',
 'tree-recorded|coords-none|empty': 'list(raise builtins.ValueError: These variables cannot be '
                                    "found in this dataset: [None], builtins.str:'[]', "
                                    'builtins.bool:True)',
 'dataset|coords-none|x': 'list(raise builtins.ValueError: These variables cannot be found in this '
                          "dataset: [None], builtins.str:'None', builtins.bool:True)",
 'tree|coords-none|x': 'list(raise builtins.ValueError: These variables cannot be found in this '
                       "dataset: [None], builtins.str:'None', builtins.bool:True)",
 'dataset-recorded|coords-none|x': 'list(raise builtins.ValueError: These variables cannot be '
                                   "found in this dataset: [None], builtins.str:'[]', "
                                   'builtins.bool:True)',
 'tree-recorded|coords-none|x': 'list(raise builtins.ValueError: These variables cannot be found '
                                "in this dataset: [None], builtins.str:'[]', builtins.bool:True)",
 'dataset|coords-none|xy': 'list(raise builtins.ValueError: These variables cannot be found in '
                           "this dataset: [None], builtins.str:'None', builtins.bool:True)",
 'tree|coords-none|xy': 'list(raise builtins.ValueError: These variables cannot be found in this '
                        "dataset: [None], builtins.str:'None', builtins.bool:True)",
 'dataset-recorded|coords-none|xy': 'list(raise builtins.ValueError: These variables cannot be '
                                    "found in this dataset: [None], builtins.str:'[]', "
                                    'builtins.bool:True)',
 'tree-recorded|coords-none|xy': 'list(raise builtins.ValueError: These variables cannot be found '
                                 "in this dataset: [None], builtins.str:'[]', builtins.bool:True)",
 'dataset|coords-none|yx': 'list(raise builtins.ValueError: These variables cannot be found in '
                           "this dataset: [None], builtins.str:'None', builtins.bool:True)",
 'tree|coords-none|yx': 'list(raise builtins.ValueError: These variables cannot be found in this '
                        "dataset: [None], builtins.str:'None', builtins.bool:True)",
 'dataset-recorded|coords-none|yx': 'list(raise builtins.ValueError: These variables cannot be '
                                    "found in this dataset: [None], builtins.str:'[]', "
                                    'builtins.bool:True)',
 'tree-recorded|coords-none|yx': 'list(raise builtins.ValueError: These variables cannot be found '
                                 "in this dataset: [None], builtins.str:'[]', builtins.bool:True)",
 'dataset|coords-none|unknown': 'list(raise builtins.ValueError: These variables cannot be found '
                                "in this dataset: [None], builtins.str:'None', builtins.bool:True)",
 'tree|coords-none|unknown': 'list(raise builtins.ValueError: These variables cannot be found in '
                             "this dataset: [None], builtins.str:'None', builtins.bool:True)",
 'dataset-recorded|coords-none|unknown': 'list(raise builtins.ValueError: These variables cannot '
                                         "be found in this dataset: [None], builtins.str:'[]', "
                                         'builtins.bool:True)',
 'tree-recorded|coords-none|unknown': 'list(raise builtins.ValueError: These variables cannot be '
                                      "found in this dataset: [None], builtins.str:'[]', "
                                      'builtins.bool:True)',
 'dataset|coords-none|mixed': 'list(raise builtins.ValueError: These variables cannot be found in '
                              "this dataset: [None], builtins.str:'None', builtins.bool:True)",
 'tree|coords-none|mixed': 'list(raise builtins.ValueError: These variables cannot be found in '
                           "this dataset: [None], builtins.str:'None', builtins.bool:True)",
 'dataset-recorded|coords-none|mixed': 'list(raise builtins.ValueError: These variables cannot be '
                                       "found in this dataset: [None], builtins.str:'[]', "
                                       'builtins.bool:True)',
 'tree-recorded|coords-none|mixed': 'list(raise builtins.ValueError: These variables cannot be '
                                    "found in this dataset: [None], builtins.str:'[]', "
                                    'builtins.bool:True)',
 'dataset|coords-none|int': 'list(raise builtins.ValueError: These variables cannot be found in '
                            "this dataset: [None], builtins.str:'None', builtins.bool:True)",
 'tree|coords-none|int': 'list(raise builtins.ValueError: These variables cannot be found in this '
                         "dataset: [None], builtins.str:'None', builtins.bool:True)",
 'dataset-recorded|coords-none|int': 'list(raise builtins.ValueError: These variables cannot be '
                                     "found in this dataset: [None], builtins.str:'[]', "
                                     'builtins.bool:True)',
 'tree-recorded|coords-none|int': 'list(raise builtins.ValueError: These variables cannot be found '
                                  "in this dataset: [None], builtins.str:'[]', builtins.bool:True)",
 'dataset|coords-none|str': 'list(raise builtins.ValueError: These variables cannot be found in '
                            "this dataset: [None], builtins.str:'None', builtins.bool:True)",
 'tree|coords-none|str': 'list(raise builtins.ValueError: These variables cannot be found in this '
                         "dataset: [None], builtins.str:'None', builtins.bool:True)",
 'dataset-recorded|coords-none|str': 'list(raise builtins.ValueError: These variables cannot be '
                                     "found in this dataset: [None], builtins.str:'[]', "
                                     'builtins.bool:True)',
 'tree-recorded|coords-none|str': 'list(raise builtins.ValueError: These variables cannot be found '
                                  "in this dataset: [None], builtins.str:'[]', builtins.bool:True)",
 'dataset|coords-none|list': 'list(raise builtins.ValueError: These variables cannot be found in '
                             "this dataset: [None], builtins.str:'None', builtins.bool:True)",
 'tree|coords-none|list': 'list(raise builtins.ValueError: These variables cannot be found in this '
                          "dataset: [None], builtins.str:'None', builtins.bool:True)",
 'dataset-recorded|coords-none|list': 'list(raise builtins.ValueError: These variables cannot be '
                                      "found in this dataset: [None], builtins.str:'[]', "
                                      'builtins.bool:True)',
 'tree-recorded|coords-none|list': 'list(raise builtins.ValueError: These variables cannot be '
                                   "found in this dataset: [None], builtins.str:'[]', "
                                   'builtins.bool:True)',
 'dataset|coords-none|tuple-keys': 'list(raise builtins.ValueError: These variables cannot be '
                                   "found in this dataset: [None], builtins.str:'None', "
                                   'builtins.bool:True)',
 'tree|coords-none|tuple-keys': 'list(raise builtins.ValueError: These variables cannot be found '
                                "in this dataset: [None], builtins.str:'None', builtins.bool:True)",
 'dataset-recorded|coords-none|tuple-keys': 'list(raise builtins.ValueError: These variables '
                                            'cannot be found in this dataset: [None], '
                                            "builtins.str:'[]', builtins.bool:True)",
 'tree-recorded|coords-none|tuple-keys': 'list(raise builtins.ValueError: These variables cannot '
                                         "be found in this dataset: [None], builtins.str:'[]', "
                                         'builtins.bool:True)',
 'dataset|coords-missing|none': 'list(raise builtins.ValueError: These variables cannot be found '
                                "in this dataset: ['zzz'], builtins.str:'None', "
                                'builtins.bool:True)',
 'tree|coords-missing|none': 'list(raise builtins.ValueError: These variables cannot be found in '
                             "this dataset: ['zzz'], builtins.str:'None', builtins.bool:True)",
 'dataset|coords-missing|empty': 'list(raise builtins.ValueError: These variables cannot be found '
                                 "in this dataset: ['zzz'], builtins.str:'None', "
                                 'builtins.bool:True)',
 'tree|coords-missing|empty': 'list(raise builtins.ValueError: These variables cannot be found in '
                              "this dataset: ['zzz'], builtins.str:'None', builtins.bool:True)",
 'dataset-recorded|coords-missing|empty': 'list(raise builtins.ValueError: These variables cannot '
                                          "be found in this dataset: ['zzz'], builtins.str:'[]', "
                                          'builtins.bool:True)',
 'tree-recorded|coords-missing|empty': 'list(raise builtins.ValueError: These variables cannot be '
                                       "found in this dataset: ['zzz'], builtins.str:'[]', "
                                       'builtins.bool:True)',
 'dataset|coords-missing|x': 'list(raise builtins.ValueError: These variables cannot be found in '
                             "this dataset: ['zzz'], builtins.str:'None', builtins.bool:True)",
 'tree|coords-missing|x': 'list(raise builtins.ValueError: These variables cannot be found in this '
                          "dataset: ['zzz'], builtins.str:'None', builtins.bool:True)",
 'dataset-recorded|coords-missing|x': 'list(raise builtins.ValueError: These variables cannot be '
                                      "found in this dataset: ['zzz'], builtins.str:'[]', "
                                      'builtins.bool:True)',
 'tree-recorded|coords-missing|x': 'list(raise builtins.ValueError: These variables cannot be '
                                   "found in this dataset: ['zzz'], builtins.str:'[]', "
                                   'builtins.bool:True)',
 'dataset|coords-missing|xy': 'list(raise builtins.ValueError: These variables cannot be found in '
                              "this dataset: ['zzz'], builtins.str:'None', builtins.bool:True)",
 'tree|coords-missing|xy': 'list(raise builtins.ValueError: These variables cannot be found in '
                           "this dataset: ['zzz'], builtins.str:'None', builtins.bool:True)",
 'dataset-recorded|coords-missing|xy': 'list(raise builtins.ValueError: These variables cannot be '
                                       "found in this dataset: ['zzz'], builtins.str:'[]', "
                                       'builtins.bool:True)',
 'tree-recorded|coords-missing|xy': 'list(raise builtins.ValueError: These variables cannot be '
                                    "found in this dataset: ['zzz'], builtins.str:'[]', "
                                    'builtins.bool:True)',
 'dataset|coords-missing|yx': 'list(raise builtins.ValueError: These variables cannot be found in '
                              "this dataset: ['zzz'], builtins.str:'None', builtins.bool:True)",
 'tree|coords-missing|yx': 'list(raise builtins.ValueError: These variables cannot be found in '
                           "this dataset: ['zzz'], builtins.str:'None', builtins.bool:True)",
 'dataset-recorded|coords-missing|yx': 'list(raise builtins.ValueError: These variables cannot be '
                                       "found in this dataset: ['zzz'], builtins.str:'[]', "
                                       'builtins.bool:True)',
 'tree-recorded|coords-missing|yx': 'list(raise builtins.ValueError: These variables cannot be '
                                    "found in this dataset: ['zzz'], builtins.str:'[]', "
                                    'builtins.bool:True)',
 'dataset|coords-missing|unknown': 'list(raise builtins.ValueError: These variables cannot be '
                                   "found in this dataset: ['zzz'], builtins.str:'None', "
                                   'builtins.bool:True)',
 'tree|coords-missing|unknown': 'list(raise builtins.ValueError: These variables cannot be found '
                                "in this dataset: ['zzz'], builtins.str:'None', "
                                'builtins.bool:True)',
 'dataset-recorded|coords-missing|unknown': 'list(raise builtins.ValueError: These variables '
                                            "cannot be found in this dataset: ['zzz'], "
                                            "builtins.str:'[]', builtins.bool:True)",
 'tree-recorded|coords-missing|unknown': 'list(raise builtins.ValueError: These variables cannot '
                                         "be found in this dataset: ['zzz'], builtins.str:'[]', "
                                         'builtins.bool:True)',
 'dataset|coords-missing|mixed': 'list(raise builtins.ValueError: These variables cannot be found '
                                 "in this dataset: ['zzz'], builtins.str:'None', "
                                 'builtins.bool:True)',
 'tree|coords-missing|mixed': 'list(raise builtins.ValueError: These variables cannot be found in '
                              "this dataset: ['zzz'], builtins.str:'None', builtins.bool:True)",
 'dataset-recorded|coords-missing|mixed': 'list(raise builtins.ValueError: These variables cannot '
                                          "be found in this dataset: ['zzz'], builtins.str:'[]', "
                                          'builtins.bool:True)',
 'tree-recorded|coords-missing|mixed': 'list(raise builtins.ValueError: These variables cannot be '
                                       "found in this dataset: ['zzz'], builtins.str:'[]', "
                                       'builtins.bool:True)',
 'dataset|coords-missing|int': 'list(raise builtins.ValueError: These variables cannot be found in '
                               "this dataset: ['zzz'], builtins.str:'None', builtins.bool:True)",
 'tree|coords-missing|int': 'list(raise builtins.ValueError: These variables cannot be found in '
                            "this dataset: ['zzz'], builtins.str:'None', builtins.bool:True)",
 'dataset-recorded|coords-missing|int': 'list(raise builtins.ValueError: These variables cannot be '
                                        "found in this dataset: ['zzz'], builtins.str:'[]', "
                                        'builtins.bool:True)',
 'tree-recorded|coords-missing|int': 'list(raise builtins.ValueError: These variables cannot be '
                                     "found in this dataset: ['zzz'], builtins.str:'[]', "
                                     'builtins.bool:True)',
 'dataset|coords-missing|str': 'list(raise builtins.ValueError: These variables cannot be found in '
                               "this dataset: ['zzz'], builtins.str:'None', builtins.bool:True)",
 'tree|coords-missing|str': 'list(raise builtins.ValueError: These variables cannot be found in '
                            "this dataset: ['zzz'], builtins.str:'None', builtins.bool:True)",
 'dataset-recorded|coords-missing|str': 'list(raise builtins.ValueError: These variables cannot be '
                                        "found in this dataset: ['zzz'], builtins.str:'[]', "
                                        'builtins.bool:True)',
 'tree-recorded|coords-missing|str': 'list(raise builtins.ValueError: These variables cannot be '
                                     "found in this dataset: ['zzz'], builtins.str:'[]', "
                                     'builtins.bool:True)',
 'dataset|coords-missing|list': 'list(raise builtins.ValueError: These variables cannot be found '
                                "in this dataset: ['zzz'], builtins.str:'None', "
                                'builtins.bool:True)',
 'tree|coords-missing|list': 'list(raise builtins.ValueError: These variables cannot be found in '
                             "this dataset: ['zzz'], builtins.str:'None', builtins.bool:True)",
 'dataset-recorded|coords-missing|list': 'list(raise builtins.ValueError: These variables cannot '
                                         "be found in this dataset: ['zzz'], builtins.str:'[]', "
                                         'builtins.bool:True)',
 'tree-recorded|coords-missing|list': 'list(raise builtins.ValueError: These variables cannot be '
                                      "found in this dataset: ['zzz'], builtins.str:'[]', "
                                      'builtins.bool:True)',
 'dataset|coords-missing|tuple-keys': 'list(raise builtins.ValueError: These variables cannot be '
                                      "found in this dataset: ['zzz'], builtins.str:'None', "
                                      'builtins.bool:True)',
 'tree|coords-missing|tuple-keys': 'list(raise builtins.ValueError: These variables cannot be '
                                   "found in this dataset: ['zzz'], builtins.str:'None', "
                                   'builtins.bool:True)',
 'dataset-recorded|coords-missing|tuple-keys': 'list(raise builtins.ValueError: These variables '
                                               "cannot be found in this dataset: ['zzz'], "
                                               "builtins.str:'[]', builtins.bool:True)",
 'tree-recorded|coords-missing|tuple-keys': 'list(raise builtins.ValueError: These variables '
                                            "cannot be found in this dataset: ['zzz'], "
                                            "builtins.str:'[]', builtins.bool:True)",
 'dataset|coords-index|none': "list(dict{builtins.str:'type': builtins.str:'Dataset', "
                              "builtins.str:'sizes': dict{builtins.str:'x': builtins.int:3, "
                              "builtins.str:'y': builtins.int:4}, builtins.str:'data_vars': "
                              "dict{}, builtins.str:'coords': dict{builtins.str:'x': "
                              "dict{builtins.str:'dims': tuple(builtins.str:'x'), "
                              "builtins.str:'dtype': builtins.str:'int8', builtins.str:'attrs': "
                              "dict{builtins.str:'a': builtins.int:1}, builtins.str:'encoding': "
                              "dict{}, builtins.str:'data-type': "
                              "builtins.str:'PandasIndexingAdapter', builtins.str:'values': "
                              "ndarray[|i1|(3,)|010203]}, builtins.str:'d': "
                              "dict{builtins.str:'dims': tuple(builtins.str:'x', "
                              "builtins.str:'y'), builtins.str:'dtype': builtins.str:'int64', "
                              "builtins.str:'attrs': dict{builtins.str:'b': builtins.str:'abc'}, "
                              "builtins.str:'encoding': dict{}, builtins.str:'data-type': "
                              "builtins.str:'ndarray', builtins.str:'values': ndarray[<i8|(3, "
                              '4)|00000000000000000100000000000000020000000000000003000000000000000400000000000000050000000000000006000000000000000700000000000000080000000000000009000000000000000a000000000000000b00000000000000]}}, '
                              "builtins.str:'attrs': dict{}, builtins.str:'encoding': dict{}}, "
                              "builtins.str:'None', builtins.bool:True)",
 'tree|coords-index|none': "list(dict{builtins.str:'type': builtins.str:'DataTree', "
                           "builtins.str:'name': builtins.NoneType:None, builtins.str:'paths': "
                           "list(builtins.str:'/'), builtins.str:'nodes': dict{builtins.str:'/': "
                           "dict{builtins.str:'type': builtins.str:'Dataset', "
                           "builtins.str:'sizes': dict{builtins.str:'x': builtins.int:3, "
                           "builtins.str:'y': builtins.int:4}, builtins.str:'data_vars': dict{}, "
                           "builtins.str:'coords': dict{builtins.str:'x': "
                           "dict{builtins.str:'dims': tuple(builtins.str:'x'), "
                           "builtins.str:'dtype': builtins.str:'int8', builtins.str:'attrs': "
                           "dict{builtins.str:'a': builtins.int:1}, builtins.str:'encoding': "
                           "dict{}, builtins.str:'data-type': "
                           "builtins.str:'PandasIndexingAdapter', builtins.str:'values': "
                           "ndarray[|i1|(3,)|010203]}, builtins.str:'d': dict{builtins.str:'dims': "
                           "tuple(builtins.str:'x', builtins.str:'y'), builtins.str:'dtype': "
                           "builtins.str:'int64', builtins.str:'attrs': dict{builtins.str:'b': "
                           "builtins.str:'abc'}, builtins.str:'encoding': dict{}, "
                           "builtins.str:'data-type': builtins.str:'ndarray', "
                           "builtins.str:'values': ndarray[<i8|(3, "
                           '4)|00000000000000000100000000000000020000000000000003000000000000000400000000000000050000000000000006000000000000000700000000000000080000000000000009000000000000000a000000000000000b00000000000000]}}, '
                           "builtins.str:'attrs': dict{}, builtins.str:'encoding': dict{}}}}, "
                           "builtins.str:'None', builtins.bool:True)",
 'dataset|coords-index|empty': "list(raise builtins.ImportError: chunk manager 'dask' is not "
                               "available. Please make sure 'dask' is installed and importable., "
                               "builtins.str:'None', builtins.bool:True)",
 'tree|coords-index|empty': "list(raise builtins.ImportError: chunk manager 'dask' is not "
                            "available. Please make sure 'dask' is installed and importable., "
                            "builtins.str:'None', builtins.bool:True)",
 'dataset-recorded|coords-index|empty': "list(dict{builtins.str:'type': builtins.str:'Dataset', "
                                        "builtins.str:'sizes': dict{builtins.str:'x': "
                                        "builtins.int:3, builtins.str:'y': builtins.int:4}, "
                                        "builtins.str:'data_vars': dict{}, builtins.str:'coords': "
                                        "dict{builtins.str:'x': dict{builtins.str:'dims': "
                                        "tuple(builtins.str:'x'), builtins.str:'dtype': "
                                        "builtins.str:'int8', builtins.str:'attrs': "
                                        "dict{builtins.str:'a': builtins.int:1}, "
                                        "builtins.str:'encoding': dict{}, "
                                        "builtins.str:'data-type': "
                                        "builtins.str:'PandasIndexingAdapter', "
                                        "builtins.str:'values': ndarray[|i1|(3,)|010203]}, "
                                        "builtins.str:'d': dict{builtins.str:'dims': "
                                        "tuple(builtins.str:'x', builtins.str:'y'), "
                                        "builtins.str:'dtype': builtins.str:'int64', "
                                        "builtins.str:'attrs': dict{builtins.str:'b': "
                                        "builtins.str:'abc'}, builtins.str:'encoding': dict{}, "
                                        "builtins.str:'data-type': builtins.str:'ndarray', "
                                        "builtins.str:'values': ndarray[<i8|(3, "
                                        '4)|00000000000000000100000000000000020000000000000003000000000000000400000000000000050000000000000006000000000000000700000000000000080000000000000009000000000000000a000000000000000b00000000000000]}}, '
                                        "builtins.str:'attrs': dict{builtins.str:'chunked_with': "
                                        "builtins.str:'(({},), {})'}, builtins.str:'encoding': "
                                        'dict{}}, builtins.str:"[([\'d\', \'x\'], ({},), {})]", '
                                        'builtins.bool:True)',
 'tree-recorded|coords-index|empty': "list(dict{builtins.str:'type': builtins.str:'DataTree', "
                                     "builtins.str:'name': builtins.NoneType:None, "
                                     "builtins.str:'paths': list(builtins.str:'/'), "
                                     "builtins.str:'nodes': dict{builtins.str:'/': "
                                     "dict{builtins.str:'type': builtins.str:'Dataset', "
                                     "builtins.str:'sizes': dict{builtins.str:'x': builtins.int:3, "
                                     "builtins.str:'y': builtins.int:4}, builtins.str:'data_vars': "
                                     "dict{}, builtins.str:'coords': dict{builtins.str:'x': "
                                     "dict{builtins.str:'dims': tuple(builtins.str:'x'), "
                                     "builtins.str:'dtype': builtins.str:'int8', "
                                     "builtins.str:'attrs': dict{builtins.str:'a': "
                                     "builtins.int:1}, builtins.str:'encoding': dict{}, "
                                     "builtins.str:'data-type': "
                                     "builtins.str:'PandasIndexingAdapter', builtins.str:'values': "
                                     "ndarray[|i1|(3,)|010203]}, builtins.str:'d': "
                                     "dict{builtins.str:'dims': tuple(builtins.str:'x', "
                                     "builtins.str:'y'), builtins.str:'dtype': "
                                     "builtins.str:'int64', builtins.str:'attrs': "
                                     "dict{builtins.str:'b': builtins.str:'abc'}, "
                                     "builtins.str:'encoding': dict{}, builtins.str:'data-type': "
                                     "builtins.str:'ndarray', builtins.str:'values': "
                                     'ndarray[<i8|(3, '
                                     '4)|00000000000000000100000000000000020000000000000003000000000000000400000000000000050000000000000006000000000000000700000000000000080000000000000009000000000000000a000000000000000b00000000000000]}}, '
                                     "builtins.str:'attrs': dict{builtins.str:'chunked_with': "
                                     "builtins.str:'(({},), {})'}, builtins.str:'encoding': "
                                     'dict{}}}}, builtins.str:"[([\'d\', \'x\'], ({},), {}), '
                                     '([\'d\', \'x\'], ({},), {})]", builtins.bool:True)',
 'dataset|coords-index|x': "list(raise builtins.ImportError: chunk manager 'dask' is not "
                           "available. Please make sure 'dask' is installed and importable., "
                           "builtins.str:'None', builtins.bool:True)",
 'tree|coords-index|x': "list(raise builtins.ImportError: chunk manager 'dask' is not available. "
                        "Please make sure 'dask' is installed and importable., "
                        "builtins.str:'None', builtins.bool:True)",
 'dataset-recorded|coords-index|x': "list(dict{builtins.str:'type': builtins.str:'Dataset', "
                                    "builtins.str:'sizes': dict{builtins.str:'x': builtins.int:3, "
                                    "builtins.str:'y': builtins.int:4}, builtins.str:'data_vars': "
                                    "dict{}, builtins.str:'coords': dict{builtins.str:'x': "
                                    "dict{builtins.str:'dims': tuple(builtins.str:'x'), "
                                    "builtins.str:'dtype': builtins.str:'int8', "
                                    "builtins.str:'attrs': dict{builtins.str:'a': builtins.int:1}, "
                                    "builtins.str:'encoding': dict{}, builtins.str:'data-type': "
                                    "builtins.str:'PandasIndexingAdapter', builtins.str:'values': "
                                    "ndarray[|i1|(3,)|010203]}, builtins.str:'d': "
                                    "dict{builtins.str:'dims': tuple(builtins.str:'x', "
                                    "builtins.str:'y'), builtins.str:'dtype': "
                                    "builtins.str:'int64', builtins.str:'attrs': "
                                    "dict{builtins.str:'b': builtins.str:'abc'}, "
                                    "builtins.str:'encoding': dict{}, builtins.str:'data-type': "
                                    "builtins.str:'ndarray', builtins.str:'values': "
                                    'ndarray[<i8|(3, '
                                    '4)|00000000000000000100000000000000020000000000000003000000000000000400000000000000050000000000000006000000000000000700000000000000080000000000000009000000000000000a000000000000000b00000000000000]}}, '
                                    "builtins.str:'attrs': dict{builtins.str:'chunked_with': "
                                    'builtins.str:"(({\'x\': 1},), {})"}, '
                                    'builtins.str:\'encoding\': dict{}}, builtins.str:"[([\'d\', '
                                    '\'x\'], ({\'x\': 1},), {})]", builtins.bool:True)',
 'tree-recorded|coords-index|x': "list(dict{builtins.str:'type': builtins.str:'DataTree', "
                                 "builtins.str:'name': builtins.NoneType:None, "
                                 "builtins.str:'paths': list(builtins.str:'/'), "
                                 "builtins.str:'nodes': dict{builtins.str:'/': "
                                 "dict{builtins.str:'type': builtins.str:'Dataset', "
                                 "builtins.str:'sizes': dict{builtins.str:'x': builtins.int:3, "
                                 "builtins.str:'y': builtins.int:4}, builtins.str:'data_vars': "
                                 "dict{}, builtins.str:'coords': dict{builtins.str:'x': "
                                 "dict{builtins.str:'dims': tuple(builtins.str:'x'), "
                                 "builtins.str:'dtype': builtins.str:'int8', builtins.str:'attrs': "
                                 "dict{builtins.str:'a': builtins.int:1}, builtins.str:'encoding': "
                                 "dict{}, builtins.str:'data-type': "
                                 "builtins.str:'PandasIndexingAdapter', builtins.str:'values': "
                                 "ndarray[|i1|(3,)|010203]}, builtins.str:'d': "
                                 "dict{builtins.str:'dims': tuple(builtins.str:'x', "
                                 "builtins.str:'y'), builtins.str:'dtype': builtins.str:'int64', "
                                 "builtins.str:'attrs': dict{builtins.str:'b': "
                                 "builtins.str:'abc'}, builtins.str:'encoding': dict{}, "
                                 "builtins.str:'data-type': builtins.str:'ndarray', "
                                 "builtins.str:'values': ndarray[<i8|(3, "
                                 '4)|00000000000000000100000000000000020000000000000003000000000000000400000000000000050000000000000006000000000000000700000000000000080000000000000009000000000000000a000000000000000b00000000000000]}}, '
                                 "builtins.str:'attrs': dict{builtins.str:'chunked_with': "
                                 'builtins.str:"(({\'x\': 1},), {})"}, builtins.str:\'encoding\': '
                                 'dict{}}}}, builtins.str:"[([\'d\', \'x\'], ({\'x\': 1},), {}), '
                                 '([\'d\', \'x\'], ({\'x\': 1},), {})]", builtins.bool:True)',
 'dataset|coords-index|xy': "list(raise builtins.ImportError: chunk manager 'dask' is not "
                            "available. Please make sure 'dask' is installed and importable., "
                            "builtins.str:'None', builtins.bool:True)",
 'tree|coords-index|xy': "list(raise builtins.ImportError: chunk manager 'dask' is not available. "
                         "Please make sure 'dask' is installed and importable., "
                         "builtins.str:'None', builtins.bool:True)",
 'dataset-recorded|coords-index|xy': "list(dict{builtins.str:'type': builtins.str:'Dataset', "
                                     "builtins.str:'sizes': dict{builtins.str:'x': builtins.int:3, "
                                     "builtins.str:'y': builtins.int:4}, builtins.str:'data_vars': "
                                     "dict{}, builtins.str:'coords': dict{builtins.str:'x': "
                                     "dict{builtins.str:'dims': tuple(builtins.str:'x'), "
                                     "builtins.str:'dtype': builtins.str:'int8', "
                                     "builtins.str:'attrs': dict{builtins.str:'a': "
                                     "builtins.int:1}, builtins.str:'encoding': dict{}, "
                                     "builtins.str:'data-type': "
                                     "builtins.str:'PandasIndexingAdapter', builtins.str:'values': "
                                     "ndarray[|i1|(3,)|010203]}, builtins.str:'d': "
                                     "dict{builtins.str:'dims': tuple(builtins.str:'x', "
                                     "builtins.str:'y'), builtins.str:'dtype': "
                                     "builtins.str:'int64', builtins.str:'attrs': "
                                     "dict{builtins.str:'b': builtins.str:'abc'}, "
                                     "builtins.str:'encoding': dict{}, builtins.str:'data-type': "
                                     "builtins.str:'ndarray', builtins.str:'values': "
                                     'ndarray[<i8|(3, '
                                     '4)|00000000000000000100000000000000020000000000000003000000000000000400000000000000050000000000000006000000000000000700000000000000080000000000000009000000000000000a000000000000000b00000000000000]}}, '
                                     "builtins.str:'attrs': dict{builtins.str:'chunked_with': "
                                     'builtins.str:"(({\'x\': 1, \'y\': 2},), {})"}, '
                                     'builtins.str:\'encoding\': dict{}}, builtins.str:"[([\'d\', '
                                     '\'x\'], ({\'x\': 1, \'y\': 2},), {})]", builtins.bool:True)',
 'tree-recorded|coords-index|xy': "list(dict{builtins.str:'type': builtins.str:'DataTree', "
                                  "builtins.str:'name': builtins.NoneType:None, "
                                  "builtins.str:'paths': list(builtins.str:'/'), "
                                  "builtins.str:'nodes': dict{builtins.str:'/': "
                                  "dict{builtins.str:'type': builtins.str:'Dataset', "
                                  "builtins.str:'sizes': dict{builtins.str:'x': builtins.int:3, "
                                  "builtins.str:'y': builtins.int:4}, builtins.str:'data_vars': "
                                  "dict{}, builtins.str:'coords': dict{builtins.str:'x': "
                                  "dict{builtins.str:'dims': tuple(builtins.str:'x'), "
                                  "builtins.str:'dtype': builtins.str:'int8', "
                                  "builtins.str:'attrs': dict{builtins.str:'a': builtins.int:1}, "
                                  "builtins.str:'encoding': dict{}, builtins.str:'data-type': "
                                  "builtins.str:'PandasIndexingAdapter', builtins.str:'values': "
                                  "ndarray[|i1|(3,)|010203]}, builtins.str:'d': "
                                  "dict{builtins.str:'dims': tuple(builtins.str:'x', "
                                  "builtins.str:'y'), builtins.str:'dtype': builtins.str:'int64', "
                                  "builtins.str:'attrs': dict{builtins.str:'b': "
                                  "builtins.str:'abc'}, builtins.str:'encoding': dict{}, "
                                  "builtins.str:'data-type': builtins.str:'ndarray', "
                                  "builtins.str:'values': ndarray[<i8|(3, "
                                  '4)|00000000000000000100000000000000020000000000000003000000000000000400000000000000050000000000000006000000000000000700000000000000080000000000000009000000000000000a000000000000000b00000000000000]}}, '
                                  "builtins.str:'attrs': dict{builtins.str:'chunked_with': "
                                  'builtins.str:"(({\'x\': 1, \'y\': 2},), {})"}, '
                                  'builtins.str:\'encoding\': dict{}}}}, builtins.str:"[([\'d\', '
                                  "'x'], ({'x': 1, 'y': 2},), {}), (['d', 'x'], ({'x': 1, 'y': "
                                  '2},), {})]", builtins.bool:True)',
 'dataset|coords-index|yx': "list(raise builtins.ImportError: chunk manager 'dask' is not "
                            "available. Please make sure 'dask' is installed and importable., "
                            "builtins.str:'None', builtins.bool:True)",
 'tree|coords-index|yx': "list(raise builtins.ImportError: chunk manager 'dask' is not available. "
                         "Please make sure 'dask' is installed and importable., "
                         "builtins.str:'None', builtins.bool:True)",
 'dataset-recorded|coords-index|yx': "list(dict{builtins.str:'type': builtins.str:'Dataset', "
                                     "builtins.str:'sizes': dict{builtins.str:'x': builtins.int:3, "
                                     "builtins.str:'y': builtins.int:4}, builtins.str:'data_vars': "
                                     "dict{}, builtins.str:'coords': dict{builtins.str:'x': "
                                     "dict{builtins.str:'dims': tuple(builtins.str:'x'), "
                                     "builtins.str:'dtype': builtins.str:'int8', "
                                     "builtins.str:'attrs': dict{builtins.str:'a': "
                                     "builtins.int:1}, builtins.str:'encoding': dict{}, "
                                     "builtins.str:'data-type': "
                                     "builtins.str:'PandasIndexingAdapter', builtins.str:'values': "
                                     "ndarray[|i1|(3,)|010203]}, builtins.str:'d': "
                                     "dict{builtins.str:'dims': tuple(builtins.str:'x', "
                                     "builtins.str:'y'), builtins.str:'dtype': "
                                     "builtins.str:'int64', builtins.str:'attrs': "
                                     "dict{builtins.str:'b': builtins.str:'abc'}, "
                                     "builtins.str:'encoding': dict{}, builtins.str:'data-type': "
                                     "builtins.str:'ndarray', builtins.str:'values': "
                                     'ndarray[<i8|(3, '
                                     '4)|00000000000000000100000000000000020000000000000003000000000000000400000000000000050000000000000006000000000000000700000000000000080000000000000009000000000000000a000000000000000b00000000000000]}}, '
                                     "builtins.str:'attrs': dict{builtins.str:'chunked_with': "
                                     'builtins.str:"(({\'y\': 2, \'x\': -1},), {})"}, '
                                     'builtins.str:\'encoding\': dict{}}, builtins.str:"[([\'d\', '
                                     '\'x\'], ({\'y\': 2, \'x\': -1},), {})]", builtins.bool:True)',
 'tree-recorded|coords-index|yx': "list(dict{builtins.str:'type': builtins.str:'DataTree', "
                                  "builtins.str:'name': builtins.NoneType:None, "
                                  "builtins.str:'paths': list(builtins.str:'/'), "
                                  "builtins.str:'nodes': dict{builtins.str:'/': "
                                  "dict{builtins.str:'type': builtins.str:'Dataset', "
                                  "builtins.str:'sizes': dict{builtins.str:'x': builtins.int:3, "
                                  "builtins.str:'y': builtins.int:4}, builtins.str:'data_vars': "
                                  "dict{}, builtins.str:'coords': dict{builtins.str:'x': "
                                  "dict{builtins.str:'dims': tuple(builtins.str:'x'), "
                                  "builtins.str:'dtype': builtins.str:'int8', "
                                  "builtins.str:'attrs': dict{builtins.str:'a': builtins.int:1}, "
                                  "builtins.str:'encoding': dict{}, builtins.str:'data-type': "
                                  "builtins.str:'PandasIndexingAdapter', builtins.str:'values': "
                                  "ndarray[|i1|(3,)|010203]}, builtins.str:'d': "
                                  "dict{builtins.str:'dims': tuple(builtins.str:'x', "
                                  "builtins.str:'y'), builtins.str:'dtype': builtins.str:'int64', "
                                  "builtins.str:'attrs': dict{builtins.str:'b': "
                                  "builtins.str:'abc'}, builtins.str:'encoding': dict{}, "
                                  "builtins.str:'data-type': builtins.str:'ndarray', "
                                  "builtins.str:'values': ndarray[<i8|(3, "
                                  '4)|00000000000000000100000000000000020000000000000003000000000000000400000000000000050000000000000006000000000000000700000000000000080000000000000009000000000000000a000000000000000b00000000000000]}}, '
                                  "builtins.str:'attrs': dict{builtins.str:'chunked_with': "
                                  'builtins.str:"(({\'y\': 2, \'x\': -1},), {})"}, '
                                  'builtins.str:\'encoding\': dict{}}}}, builtins.str:"[([\'d\', '
                                  "'x'], ({'y': 2, 'x': -1},), {}), (['d', 'x'], ({'y': 2, 'x': "
                                  '-1},), {})]", builtins.bool:True)',
 'dataset|coords-index|unknown': "list(raise builtins.ImportError: chunk manager 'dask' is not "
                                 "available. Please make sure 'dask' is installed and importable., "
                                 "builtins.str:'None', builtins.bool:True)",
 'tree|coords-index|unknown': "list(raise builtins.ImportError: chunk manager 'dask' is not "
                              "available. Please make sure 'dask' is installed and importable., "
                              "builtins.str:'None', builtins.bool:True)",
 'dataset-recorded|coords-index|unknown': "list(dict{builtins.str:'type': builtins.str:'Dataset', "
                                          "builtins.str:'sizes': dict{builtins.str:'x': "
                                          "builtins.int:3, builtins.str:'y': builtins.int:4}, "
                                          "builtins.str:'data_vars': dict{}, "
                                          "builtins.str:'coords': dict{builtins.str:'x': "
                                          "dict{builtins.str:'dims': tuple(builtins.str:'x'), "
                                          "builtins.str:'dtype': builtins.str:'int8', "
                                          "builtins.str:'attrs': dict{builtins.str:'a': "
                                          "builtins.int:1}, builtins.str:'encoding': dict{}, "
                                          "builtins.str:'data-type': "
                                          "builtins.str:'PandasIndexingAdapter', "
                                          "builtins.str:'values': ndarray[|i1|(3,)|010203]}, "
                                          "builtins.str:'d': dict{builtins.str:'dims': "
                                          "tuple(builtins.str:'x', builtins.str:'y'), "
                                          "builtins.str:'dtype': builtins.str:'int64', "
                                          "builtins.str:'attrs': dict{builtins.str:'b': "
                                          "builtins.str:'abc'}, builtins.str:'encoding': dict{}, "
                                          "builtins.str:'data-type': builtins.str:'ndarray', "
                                          "builtins.str:'values': ndarray[<i8|(3, "
                                          '4)|00000000000000000100000000000000020000000000000003000000000000000400000000000000050000000000000006000000000000000700000000000000080000000000000009000000000000000a000000000000000b00000000000000]}}, '
                                          "builtins.str:'attrs': dict{builtins.str:'chunked_with': "
                                          "builtins.str:'(({},), {})'}, builtins.str:'encoding': "
                                          'dict{}}, builtins.str:"[([\'d\', \'x\'], ({},), {})]", '
                                          'builtins.bool:True)',
 'tree-recorded|coords-index|unknown': "list(dict{builtins.str:'type': builtins.str:'DataTree', "
                                       "builtins.str:'name': builtins.NoneType:None, "
                                       "builtins.str:'paths': list(builtins.str:'/'), "
                                       "builtins.str:'nodes': dict{builtins.str:'/': "
                                       "dict{builtins.str:'type': builtins.str:'Dataset', "
                                       "builtins.str:'sizes': dict{builtins.str:'x': "
                                       "builtins.int:3, builtins.str:'y': builtins.int:4}, "
                                       "builtins.str:'data_vars': dict{}, builtins.str:'coords': "
                                       "dict{builtins.str:'x': dict{builtins.str:'dims': "
                                       "tuple(builtins.str:'x'), builtins.str:'dtype': "
                                       "builtins.str:'int8', builtins.str:'attrs': "
                                       "dict{builtins.str:'a': builtins.int:1}, "
                                       "builtins.str:'encoding': dict{}, builtins.str:'data-type': "
                                       "builtins.str:'PandasIndexingAdapter', "
                                       "builtins.str:'values': ndarray[|i1|(3,)|010203]}, "
                                       "builtins.str:'d': dict{builtins.str:'dims': "
                                       "tuple(builtins.str:'x', builtins.str:'y'), "
                                       "builtins.str:'dtype': builtins.str:'int64', "
                                       "builtins.str:'attrs': dict{builtins.str:'b': "
                                       "builtins.str:'abc'}, builtins.str:'encoding': dict{}, "
                                       "builtins.str:'data-type': builtins.str:'ndarray', "
                                       "builtins.str:'values': ndarray[<i8|(3, "
                                       '4)|00000000000000000100000000000000020000000000000003000000000000000400000000000000050000000000000006000000000000000700000000000000080000000000000009000000000000000a000000000000000b00000000000000]}}, '
                                       "builtins.str:'attrs': dict{builtins.str:'chunked_with': "
                                       "builtins.str:'(({},), {})'}, builtins.str:'encoding': "
                                       'dict{}}}}, builtins.str:"[([\'d\', \'x\'], ({},), {}), '
                                       '([\'d\', \'x\'], ({},), {})]", builtins.bool:True)',
 'dataset|coords-index|mixed': "list(raise builtins.ImportError: chunk manager 'dask' is not "
                               "available. Please make sure 'dask' is installed and importable., "
                               "builtins.str:'None', builtins.bool:True)",
 'tree|coords-index|mixed': "list(raise builtins.ImportError: chunk manager 'dask' is not "
                            "available. Please make sure 'dask' is installed and importable., "
                            "builtins.str:'None', builtins.bool:True)",
 'dataset-recorded|coords-index|mixed': "list(dict{builtins.str:'type': builtins.str:'Dataset', "
                                        "builtins.str:'sizes': dict{builtins.str:'x': "
                                        "builtins.int:3, builtins.str:'y': builtins.int:4}, "
                                        "builtins.str:'data_vars': dict{}, builtins.str:'coords': "
                                        "dict{builtins.str:'x': dict{builtins.str:'dims': "
                                        "tuple(builtins.str:'x'), builtins.str:'dtype': "
                                        "builtins.str:'int8', builtins.str:'attrs': "
                                        "dict{builtins.str:'a': builtins.int:1}, "
                                        "builtins.str:'encoding': dict{}, "
                                        "builtins.str:'data-type': "
                                        "builtins.str:'PandasIndexingAdapter', "
                                        "builtins.str:'values': ndarray[|i1|(3,)|010203]}, "
                                        "builtins.str:'d': dict{builtins.str:'dims': "
                                        "tuple(builtins.str:'x', builtins.str:'y'), "
                                        "builtins.str:'dtype': builtins.str:'int64', "
                                        "builtins.str:'attrs': dict{builtins.str:'b': "
                                        "builtins.str:'abc'}, builtins.str:'encoding': dict{}, "
                                        "builtins.str:'data-type': builtins.str:'ndarray', "
                                        "builtins.str:'values': ndarray[<i8|(3, "
                                        '4)|00000000000000000100000000000000020000000000000003000000000000000400000000000000050000000000000006000000000000000700000000000000080000000000000009000000000000000a000000000000000b00000000000000]}}, '
                                        "builtins.str:'attrs': dict{builtins.str:'chunked_with': "
                                        'builtins.str:"(({\'x\': \'auto\'},), {})"}, '
                                        "builtins.str:'encoding': dict{}}, "
                                        'builtins.str:"[([\'d\', \'x\'], ({\'x\': \'auto\'},), '
                                        '{})]", builtins.bool:True)',
 'tree-recorded|coords-index|mixed': "list(dict{builtins.str:'type': builtins.str:'DataTree', "
                                     "builtins.str:'name': builtins.NoneType:None, "
                                     "builtins.str:'paths': list(builtins.str:'/'), "
                                     "builtins.str:'nodes': dict{builtins.str:'/': "
                                     "dict{builtins.str:'type': builtins.str:'Dataset', "
                                     "builtins.str:'sizes': dict{builtins.str:'x': builtins.int:3, "
                                     "builtins.str:'y': builtins.int:4}, builtins.str:'data_vars': "
                                     "dict{}, builtins.str:'coords': dict{builtins.str:'x': "
                                     "dict{builtins.str:'dims': tuple(builtins.str:'x'), "
                                     "builtins.str:'dtype': builtins.str:'int8', "
                                     "builtins.str:'attrs': dict{builtins.str:'a': "
                                     "builtins.int:1}, builtins.str:'encoding': dict{}, "
                                     "builtins.str:'data-type': "
                                     "builtins.str:'PandasIndexingAdapter', builtins.str:'values': "
                                     "ndarray[|i1|(3,)|010203]}, builtins.str:'d': "
                                     "dict{builtins.str:'dims': tuple(builtins.str:'x', "
                                     "builtins.str:'y'), builtins.str:'dtype': "
                                     "builtins.str:'int64', builtins.str:'attrs': "
                                     "dict{builtins.str:'b': builtins.str:'abc'}, "
                                     "builtins.str:'encoding': dict{}, builtins.str:'data-type': "
                                     "builtins.str:'ndarray', builtins.str:'values': "
                                     'ndarray[<i8|(3, '
                                     '4)|00000000000000000100000000000000020000000000000003000000000000000400000000000000050000000000000006000000000000000700000000000000080000000000000009000000000000000a000000000000000b00000000000000]}}, '
                                     "builtins.str:'attrs': dict{builtins.str:'chunked_with': "
                                     'builtins.str:"(({\'x\': \'auto\'},), {})"}, '
                                     "builtins.str:'encoding': dict{}}}}, "
                                     'builtins.str:"[([\'d\', \'x\'], ({\'x\': \'auto\'},), {}), '
                                     '([\'d\', \'x\'], ({\'x\': \'auto\'},), {})]", '
                                     'builtins.bool:True)',
 'dataset|coords-index|int': "list(raise builtins.AttributeError: 'int' object has no attribute "
                             "'items', builtins.str:'None', builtins.bool:True)",
 'tree|coords-index|int': "list(raise builtins.AttributeError: 'int' object has no attribute "
                          "'items', builtins.str:'None', builtins.bool:True)",
 'dataset-recorded|coords-index|int': "list(raise builtins.AttributeError: 'int' object has no "
                                      "attribute 'items', builtins.str:'[]', builtins.bool:True)",
 'tree-recorded|coords-index|int': "list(raise builtins.AttributeError: 'int' object has no "
                                   "attribute 'items', builtins.str:'[]', builtins.bool:True)",
 'dataset|coords-index|str': "list(raise builtins.AttributeError: 'str' object has no attribute "
                             "'items', builtins.str:'None', builtins.bool:True)",
 'tree|coords-index|str': "list(raise builtins.AttributeError: 'str' object has no attribute "
                          "'items', builtins.str:'None', builtins.bool:True)",
 'dataset-recorded|coords-index|str': "list(raise builtins.AttributeError: 'str' object has no "
                                      "attribute 'items', builtins.str:'[]', builtins.bool:True)",
 'tree-recorded|coords-index|str': "list(raise builtins.AttributeError: 'str' object has no "
                                   "attribute 'items', builtins.str:'[]', builtins.bool:True)",
 'dataset|coords-index|list': "list(raise builtins.AttributeError: 'list' object has no attribute "
                              "'items', builtins.str:'None', builtins.bool:True)",
 'tree|coords-index|list': "list(raise builtins.AttributeError: 'list' object has no attribute "
                           "'items', builtins.str:'None', builtins.bool:True)",
 'dataset-recorded|coords-index|list': "list(raise builtins.AttributeError: 'list' object has no "
                                       "attribute 'items', builtins.str:'[]', builtins.bool:True)",
 'tree-recorded|coords-index|list': "list(raise builtins.AttributeError: 'list' object has no "
                                    "attribute 'items', builtins.str:'[]', builtins.bool:True)",
 'dataset|coords-index|tuple-keys': "list(raise builtins.ImportError: chunk manager 'dask' is not "
                                    "available. Please make sure 'dask' is installed and "
                                    "importable., builtins.str:'None', builtins.bool:True)",
 'tree|coords-index|tuple-keys': "list(raise builtins.ImportError: chunk manager 'dask' is not "
                                 "available. Please make sure 'dask' is installed and importable., "
                                 "builtins.str:'None', builtins.bool:True)",
 'dataset-recorded|coords-index|tuple-keys': "list(dict{builtins.str:'type': "
                                             "builtins.str:'Dataset', builtins.str:'sizes': "
                                             "dict{builtins.str:'x': builtins.int:3, "
                                             "builtins.str:'y': builtins.int:4}, "
                                             "builtins.str:'data_vars': dict{}, "
                                             "builtins.str:'coords': dict{builtins.str:'x': "
                                             "dict{builtins.str:'dims': tuple(builtins.str:'x'), "
                                             "builtins.str:'dtype': builtins.str:'int8', "
                                             "builtins.str:'attrs': dict{builtins.str:'a': "
                                             "builtins.int:1}, builtins.str:'encoding': dict{}, "
                                             "builtins.str:'data-type': "
                                             "builtins.str:'PandasIndexingAdapter', "
                                             "builtins.str:'values': ndarray[|i1|(3,)|010203]}, "
                                             "builtins.str:'d': dict{builtins.str:'dims': "
                                             "tuple(builtins.str:'x', builtins.str:'y'), "
                                             "builtins.str:'dtype': builtins.str:'int64', "
                                             "builtins.str:'attrs': dict{builtins.str:'b': "
                                             "builtins.str:'abc'}, builtins.str:'encoding': "
                                             "dict{}, builtins.str:'data-type': "
                                             "builtins.str:'ndarray', builtins.str:'values': "
                                             'ndarray[<i8|(3, '
                                             '4)|00000000000000000100000000000000020000000000000003000000000000000400000000000000050000000000000006000000000000000700000000000000080000000000000009000000000000000a000000000000000b00000000000000]}}, '
                                             "builtins.str:'attrs': "
                                             "dict{builtins.str:'chunked_with': "
                                             "builtins.str:'(({},), {})'}, "
                                             "builtins.str:'encoding': dict{}}, "
                                             'builtins.str:"[([\'d\', \'x\'], ({},), {})]", '
                                             'builtins.bool:True)',
 'tree-recorded|coords-index|tuple-keys': "list(dict{builtins.str:'type': builtins.str:'DataTree', "
                                          "builtins.str:'name': builtins.NoneType:None, "
                                          "builtins.str:'paths': list(builtins.str:'/'), "
                                          "builtins.str:'nodes': dict{builtins.str:'/': "
                                          "dict{builtins.str:'type': builtins.str:'Dataset', "
                                          "builtins.str:'sizes': dict{builtins.str:'x': "
                                          "builtins.int:3, builtins.str:'y': builtins.int:4}, "
                                          "builtins.str:'data_vars': dict{}, "
                                          "builtins.str:'coords': dict{builtins.str:'x': "
                                          "dict{builtins.str:'dims': tuple(builtins.str:'x'), "
                                          "builtins.str:'dtype': builtins.str:'int8', "
                                          "builtins.str:'attrs': dict{builtins.str:'a': "
                                          "builtins.int:1}, builtins.str:'encoding': dict{}, "
                                          "builtins.str:'data-type': "
                                          "builtins.str:'PandasIndexingAdapter', "
                                          "builtins.str:'values': ndarray[|i1|(3,)|010203]}, "
                                          "builtins.str:'d': dict{builtins.str:'dims': "
                                          "tuple(builtins.str:'x', builtins.str:'y'), "
                                          "builtins.str:'dtype': builtins.str:'int64', "
                                          "builtins.str:'attrs': dict{builtins.str:'b': "
                                          "builtins.str:'abc'}, builtins.str:'encoding': dict{}, "
                                          "builtins.str:'data-type': builtins.str:'ndarray', "
                                          "builtins.str:'values': ndarray[<i8|(3, "
                                          '4)|00000000000000000100000000000000020000000000000003000000000000000400000000000000050000000000000006000000000000000700000000000000080000000000000009000000000000000a000000000000000b00000000000000]}}, '
                                          "builtins.str:'attrs': dict{builtins.str:'chunked_with': "
                                          "builtins.str:'(({},), {})'}, builtins.str:'encoding': "
                                          'dict{}}}}, builtins.str:"[([\'d\', \'x\'], ({},), {}), '
                                          '([\'d\', \'x\'], ({},), {})]", builtins.bool:True)',
 'dataset|scalar|none': "list(dict{builtins.str:'type': builtins.str:'Dataset', "
                        "builtins.str:'sizes': dict{builtins.str:'t': builtins.int:2}, "
                        "builtins.str:'data_vars': dict{}, builtins.str:'coords': "
                        "dict{builtins.str:'s': dict{builtins.str:'dims': tuple(), "
                        "builtins.str:'dtype': builtins.str:'int64', builtins.str:'attrs': "
                        "dict{builtins.str:'scalar': builtins.bool:True}, builtins.str:'encoding': "
                        "dict{}, builtins.str:'data-type': builtins.str:'ndarray', "
                        "builtins.str:'values': ndarray[<i8|()|0700000000000000]}, "
                        "builtins.str:'t': dict{builtins.str:'dims': tuple(builtins.str:'t'), "
                        "builtins.str:'dtype': builtins.str:'datetime64[ns]', "
                        "builtins.str:'attrs': dict{builtins.str:'axis': builtins.str:'T'}, "
                        "builtins.str:'encoding': dict{}, builtins.str:'data-type': "
                        "builtins.str:'PandasIndexingAdapter', builtins.str:'values': "
                        'ndarray[<M8[ns]|(2,)|00008ab9359ae5150000d94acae8e515]}}, '
                        "builtins.str:'attrs': dict{}, builtins.str:'encoding': dict{}}, "
                        "builtins.str:'None', builtins.bool:True)",
 'tree|scalar|none': "list(dict{builtins.str:'type': builtins.str:'DataTree', builtins.str:'name': "
                     "builtins.NoneType:None, builtins.str:'paths': list(builtins.str:'/'), "
                     "builtins.str:'nodes': dict{builtins.str:'/': dict{builtins.str:'type': "
                     "builtins.str:'Dataset', builtins.str:'sizes': dict{builtins.str:'t': "
                     "builtins.int:2}, builtins.str:'data_vars': dict{}, builtins.str:'coords': "
                     "dict{builtins.str:'s': dict{builtins.str:'dims': tuple(), "
                     "builtins.str:'dtype': builtins.str:'int64', builtins.str:'attrs': "
                     "dict{builtins.str:'scalar': builtins.bool:True}, builtins.str:'encoding': "
                     "dict{}, builtins.str:'data-type': builtins.str:'ndarray', "
                     "builtins.str:'values': ndarray[<i8|()|0700000000000000]}, builtins.str:'t': "
                     "dict{builtins.str:'dims': tuple(builtins.str:'t'), builtins.str:'dtype': "
                     "builtins.str:'datetime64[ns]', builtins.str:'attrs': "
                     "dict{builtins.str:'axis': builtins.str:'T'}, builtins.str:'encoding': "
                     "dict{}, builtins.str:'data-type': builtins.str:'PandasIndexingAdapter', "
                     "builtins.str:'values': "
                     'ndarray[<M8[ns]|(2,)|00008ab9359ae5150000d94acae8e515]}}, '
                     "builtins.str:'attrs': dict{}, builtins.str:'encoding': dict{}}}}, "
                     "builtins.str:'None', builtins.bool:True)",
 'dataset|scalar|empty': "list(raise builtins.ImportError: chunk manager 'dask' is not available. "
                         "Please make sure 'dask' is installed and importable., "
                         "builtins.str:'None', builtins.bool:True)",
 'tree|scalar|empty': "list(raise builtins.ImportError: chunk manager 'dask' is not available. "
                      "Please make sure 'dask' is installed and importable., builtins.str:'None', "
                      'builtins.bool:True)',
 'dataset-recorded|scalar|empty': "list(dict{builtins.str:'type': builtins.str:'Dataset', "
                                  "builtins.str:'sizes': dict{builtins.str:'t': builtins.int:2}, "
                                  "builtins.str:'data_vars': dict{}, builtins.str:'coords': "
                                  "dict{builtins.str:'s': dict{builtins.str:'dims': tuple(), "
                                  "builtins.str:'dtype': builtins.str:'int64', "
                                  "builtins.str:'attrs': dict{builtins.str:'scalar': "
                                  "builtins.bool:True}, builtins.str:'encoding': dict{}, "
                                  "builtins.str:'data-type': builtins.str:'ndarray', "
                                  "builtins.str:'values': ndarray[<i8|()|0700000000000000]}, "
                                  "builtins.str:'t': dict{builtins.str:'dims': "
                                  "tuple(builtins.str:'t'), builtins.str:'dtype': "
                                  "builtins.str:'datetime64[ns]', builtins.str:'attrs': "
                                  "dict{builtins.str:'axis': builtins.str:'T'}, "
                                  "builtins.str:'encoding': dict{}, builtins.str:'data-type': "
                                  "builtins.str:'PandasIndexingAdapter', builtins.str:'values': "
                                  'ndarray[<M8[ns]|(2,)|00008ab9359ae5150000d94acae8e515]}}, '
                                  "builtins.str:'attrs': dict{builtins.str:'chunked_with': "
                                  "builtins.str:'(({},), {})'}, builtins.str:'encoding': dict{}}, "
                                  'builtins.str:"[([\'s\', \'t\'], ({},), {})]", '
                                  'builtins.bool:True)',
 'tree-recorded|scalar|empty': "list(dict{builtins.str:'type': builtins.str:'DataTree', "
                               "builtins.str:'name': builtins.NoneType:None, builtins.str:'paths': "
                               "list(builtins.str:'/'), builtins.str:'nodes': "
                               "dict{builtins.str:'/': dict{builtins.str:'type': "
                               "builtins.str:'Dataset', builtins.str:'sizes': "
                               "dict{builtins.str:'t': builtins.int:2}, builtins.str:'data_vars': "
                               "dict{}, builtins.str:'coords': dict{builtins.str:'s': "
                               "dict{builtins.str:'dims': tuple(), builtins.str:'dtype': "
                               "builtins.str:'int64', builtins.str:'attrs': "
                               "dict{builtins.str:'scalar': builtins.bool:True}, "
                               "builtins.str:'encoding': dict{}, builtins.str:'data-type': "
                               "builtins.str:'ndarray', builtins.str:'values': "
                               "ndarray[<i8|()|0700000000000000]}, builtins.str:'t': "
                               "dict{builtins.str:'dims': tuple(builtins.str:'t'), "
                               "builtins.str:'dtype': builtins.str:'datetime64[ns]', "
                               "builtins.str:'attrs': dict{builtins.str:'axis': builtins.str:'T'}, "
                               "builtins.str:'encoding': dict{}, builtins.str:'data-type': "
                               "builtins.str:'PandasIndexingAdapter', builtins.str:'values': "
                               'ndarray[<M8[ns]|(2,)|00008ab9359ae5150000d94acae8e515]}}, '
                               "builtins.str:'attrs': dict{builtins.str:'chunked_with': "
                               "builtins.str:'(({},), {})'}, builtins.str:'encoding': dict{}}}}, "
                               'builtins.str:"[([\'s\', \'t\'], ({},), {}), ([\'s\', \'t\'], '
                               '({},), {})]", builtins.bool:True)',
 'dataset|scalar|x': "list(raise builtins.ImportError: chunk manager 'dask' is not available. "
                     "Please make sure 'dask' is installed and importable., builtins.str:'None', "
                     'builtins.bool:True)',
 'tree|scalar|x': "list(raise builtins.ImportError: chunk manager 'dask' is not available. Please "
                  "make sure 'dask' is installed and importable., builtins.str:'None', "
                  'builtins.bool:True)',
 'dataset-recorded|scalar|x': "list(dict{builtins.str:'type': builtins.str:'Dataset', "
                              "builtins.str:'sizes': dict{builtins.str:'t': builtins.int:2}, "
                              "builtins.str:'data_vars': dict{}, builtins.str:'coords': "
                              "dict{builtins.str:'s': dict{builtins.str:'dims': tuple(), "
                              "builtins.str:'dtype': builtins.str:'int64', builtins.str:'attrs': "
                              "dict{builtins.str:'scalar': builtins.bool:True}, "
                              "builtins.str:'encoding': dict{}, builtins.str:'data-type': "
                              "builtins.str:'ndarray', builtins.str:'values': "
                              "ndarray[<i8|()|0700000000000000]}, builtins.str:'t': "
                              "dict{builtins.str:'dims': tuple(builtins.str:'t'), "
                              "builtins.str:'dtype': builtins.str:'datetime64[ns]', "
                              "builtins.str:'attrs': dict{builtins.str:'axis': builtins.str:'T'}, "
                              "builtins.str:'encoding': dict{}, builtins.str:'data-type': "
                              "builtins.str:'PandasIndexingAdapter', builtins.str:'values': "
                              'ndarray[<M8[ns]|(2,)|00008ab9359ae5150000d94acae8e515]}}, '
                              "builtins.str:'attrs': dict{builtins.str:'chunked_with': "
                              "builtins.str:'(({},), {})'}, builtins.str:'encoding': dict{}}, "
                              'builtins.str:"[([\'s\', \'t\'], ({},), {})]", builtins.bool:True)',
 'tree-recorded|scalar|x': "list(dict{builtins.str:'type': builtins.str:'DataTree', "
                           "builtins.str:'name': builtins.NoneType:None, builtins.str:'paths': "
                           "list(builtins.str:'/'), builtins.str:'nodes': dict{builtins.str:'/': "
                           "dict{builtins.str:'type': builtins.str:'Dataset', "
                           "builtins.str:'sizes': dict{builtins.str:'t': builtins.int:2}, "
                           "builtins.str:'data_vars': dict{}, builtins.str:'coords': "
                           "dict{builtins.str:'s': dict{builtins.str:'dims': tuple(), "
                           "builtins.str:'dtype': builtins.str:'int64', builtins.str:'attrs': "
                           "dict{builtins.str:'scalar': builtins.bool:True}, "
                           "builtins.str:'encoding': dict{}, builtins.str:'data-type': "
                           "builtins.str:'ndarray', builtins.str:'values': "
                           "ndarray[<i8|()|0700000000000000]}, builtins.str:'t': "
                           "dict{builtins.str:'dims': tuple(builtins.str:'t'), "
                           "builtins.str:'dtype': builtins.str:'datetime64[ns]', "
                           "builtins.str:'attrs': dict{builtins.str:'axis': builtins.str:'T'}, "
                           "builtins.str:'encoding': dict{}, builtins.str:'data-type': "
                           "builtins.str:'PandasIndexingAdapter', builtins.str:'values': "
                           'ndarray[<M8[ns]|(2,)|00008ab9359ae5150000d94acae8e515]}}, '
                           "builtins.str:'attrs': dict{builtins.str:'chunked_with': "
                           "builtins.str:'(({},), {})'}, builtins.str:'encoding': dict{}}}}, "
                           'builtins.str:"[([\'s\', \'t\'], ({},), {}), ([\'s\', \'t\'], ({},), '
                           '{})]", builtins.bool:True)',
 'dataset|scalar|xy': "list(raise builtins.ImportError: chunk manager 'dask' is not available. "
                      "Please make sure 'dask' is installed and importable., builtins.str:'None', "
                      'builtins.bool:True)',
 'tree|scalar|xy': "list(raise builtins.ImportError: chunk manager 'dask' is not available. Please "
                   "make sure 'dask' is installed and importable., builtins.str:'None', "
                   'builtins.bool:True)',
 'dataset-recorded|scalar|xy': "list(dict{builtins.str:'type': builtins.str:'Dataset', "
                               "builtins.str:'sizes': dict{builtins.str:'t': builtins.int:2}, "
                               "builtins.str:'data_vars': dict{}, builtins.str:'coords': "
                               "dict{builtins.str:'s': dict{builtins.str:'dims': tuple(), "
                               "builtins.str:'dtype': builtins.str:'int64', builtins.str:'attrs': "
                               "dict{builtins.str:'scalar': builtins.bool:True}, "
                               "builtins.str:'encoding': dict{}, builtins.str:'data-type': "
                               "builtins.str:'ndarray', builtins.str:'values': "
                               "ndarray[<i8|()|0700000000000000]}, builtins.str:'t': "
                               "dict{builtins.str:'dims': tuple(builtins.str:'t'), "
                               "builtins.str:'dtype': builtins.str:'datetime64[ns]', "
                               "builtins.str:'attrs': dict{builtins.str:'axis': builtins.str:'T'}, "
                               "builtins.str:'encoding': dict{}, builtins.str:'data-type': "
                               "builtins.str:'PandasIndexingAdapter', builtins.str:'values': "
                               'ndarray[<M8[ns]|(2,)|00008ab9359ae5150000d94acae8e515]}}, '
                               "builtins.str:'attrs': dict{builtins.str:'chunked_with': "
                               "builtins.str:'(({},), {})'}, builtins.str:'encoding': dict{}}, "
                               'builtins.str:"[([\'s\', \'t\'], ({},), {})]", builtins.bool:True)',
 'tree-recorded|scalar|xy': "list(dict{builtins.str:'type': builtins.str:'DataTree', "
                            "builtins.str:'name': builtins.NoneType:None, builtins.str:'paths': "
                            "list(builtins.str:'/'), builtins.str:'nodes': dict{builtins.str:'/': "
                            "dict{builtins.str:'type': builtins.str:'Dataset', "
                            "builtins.str:'sizes': dict{builtins.str:'t': builtins.int:2}, "
                            "builtins.str:'data_vars': dict{}, builtins.str:'coords': "
                            "dict{builtins.str:'s': dict{builtins.str:'dims': tuple(), "
                            "builtins.str:'dtype': builtins.str:'int64', builtins.str:'attrs': "
                            "dict{builtins.str:'scalar': builtins.bool:True}, "
                            "builtins.str:'encoding': dict{}, builtins.str:'data-type': "
                            "builtins.str:'ndarray', builtins.str:'values': "
                            "ndarray[<i8|()|0700000000000000]}, builtins.str:'t': "
                            "dict{builtins.str:'dims': tuple(builtins.str:'t'), "
                            "builtins.str:'dtype': builtins.str:'datetime64[ns]', "
                            "builtins.str:'attrs': dict{builtins.str:'axis': builtins.str:'T'}, "
                            "builtins.str:'encoding': dict{}, builtins.str:'data-type': "
                            "builtins.str:'PandasIndexingAdapter', builtins.str:'values': "
                            'ndarray[<M8[ns]|(2,)|00008ab9359ae5150000d94acae8e515]}}, '
                            "builtins.str:'attrs': dict{builtins.str:'chunked_with': "
                            "builtins.str:'(({},), {})'}, builtins.str:'encoding': dict{}}}}, "
                            'builtins.str:"[([\'s\', \'t\'], ({},), {}), ([\'s\', \'t\'], ({},), '
                            '{})]", builtins.bool:True)',
 'dataset|scalar|yx': "list(raise builtins.ImportError: chunk manager 'dask' is not available. "
                      "Please make sure 'dask' is installed and importable., builtins.str:'None', "
                      'builtins.bool:True)',
 'tree|scalar|yx': "list(raise builtins.ImportError: chunk manager 'dask' is not available. Please "
                   "make sure 'dask' is installed and importable., builtins.str:'None', "
                   'builtins.bool:True)',
 'dataset-recorded|scalar|yx': "list(dict{builtins.str:'type': builtins.str:'Dataset', "
                               "builtins.str:'sizes': dict{builtins.str:'t': builtins.int:2}, "
                               "builtins.str:'data_vars': dict{}, builtins.str:'coords': "
                               "dict{builtins.str:'s': dict{builtins.str:'dims': tuple(), "
                               "builtins.str:'dtype': builtins.str:'int64', builtins.str:'attrs': "
                               "dict{builtins.str:'scalar': builtins.bool:True}, "
                               "builtins.str:'encoding': dict{}, builtins.str:'data-type': "
                               "builtins.str:'ndarray', builtins.str:'values': "
                               "ndarray[<i8|()|0700000000000000]}, builtins.str:'t': "
                               "dict{builtins.str:'dims': tuple(builtins.str:'t'), "
                               "builtins.str:'dtype': builtins.str:'datetime64[ns]', "
                               "builtins.str:'attrs': dict{builtins.str:'axis': builtins.str:'T'}, "
                               "builtins.str:'encoding': dict{}, builtins.str:'data-type': "
                               "builtins.str:'PandasIndexingAdapter', builtins.str:'values': "
                               'ndarray[<M8[ns]|(2,)|00008ab9359ae5150000d94acae8e515]}}, '
                               "builtins.str:'attrs': dict{builtins.str:'chunked_with': "
                               "builtins.str:'(({},), {})'}, builtins.str:'encoding': dict{}}, "
                               'builtins.str:"[([\'s\', \'t\'], ({},), {})]", builtins.bool:True)',
 'tree-recorded|scalar|yx': "list(dict{builtins.str:'type': builtins.str:'DataTree', "
                            "builtins.str:'name': builtins.NoneType:None, builtins.str:'paths': "
                            "list(builtins.str:'/'), builtins.str:'nodes': dict{builtins.str:'/': "
                            "dict{builtins.str:'type': builtins.str:'Dataset', "
                            "builtins.str:'sizes': dict{builtins.str:'t': builtins.int:2}, "
                            "builtins.str:'data_vars': dict{}, builtins.str:'coords': "
                            "dict{builtins.str:'s': dict{builtins.str:'dims': tuple(), "
                            "builtins.str:'dtype': builtins.str:'int64', builtins.str:'attrs': "
                            "dict{builtins.str:'scalar': builtins.bool:True}, "
                            "builtins.str:'encoding': dict{}, builtins.str:'data-type': "
                            "builtins.str:'ndarray', builtins.str:'values': "
                            "ndarray[<i8|()|0700000000000000]}, builtins.str:'t': "
                            "dict{builtins.str:'dims': tuple(builtins.str:'t'), "
                            "builtins.str:'dtype': builtins.str:'datetime64[ns]', "
                            "builtins.str:'attrs': dict{builtins.str:'axis': builtins.str:'T'}, "
                            "builtins.str:'encoding': dict{}, builtins.str:'data-type': "
                            "builtins.str:'PandasIndexingAdapter', builtins.str:'values': "
                            'ndarray[<M8[ns]|(2,)|00008ab9359ae5150000d94acae8e515]}}, '
                            "builtins.str:'attrs': dict{builtins.str:'chunked_with': "
                            "builtins.str:'(({},), {})'}, builtins.str:'encoding': dict{}}}}, "
                            'builtins.str:"[([\'s\', \'t\'], ({},), {}), ([\'s\', \'t\'], ({},), '
                            '{})]", builtins.bool:True)',
 'dataset|scalar|unknown': "list(raise builtins.ImportError: chunk manager 'dask' is not "
                           "available. Please make sure 'dask' is installed and importable., "
                           "builtins.str:'None', builtins.bool:True)",
 'tree|scalar|unknown': "list(raise builtins.ImportError: chunk manager 'dask' is not available. "
                        "Please make sure 'dask' is installed and importable., "
                        "builtins.str:'None', builtins.bool:True)",
 'dataset-recorded|scalar|unknown': "list(dict{builtins.str:'type': builtins.str:'Dataset', "
                                    "builtins.str:'sizes': dict{builtins.str:'t': builtins.int:2}, "
                                    "builtins.str:'data_vars': dict{}, builtins.str:'coords': "
                                    "dict{builtins.str:'s': dict{builtins.str:'dims': tuple(), "
                                    "builtins.str:'dtype': builtins.str:'int64', "
                                    "builtins.str:'attrs': dict{builtins.str:'scalar': "
                                    "builtins.bool:True}, builtins.str:'encoding': dict{}, "
                                    "builtins.str:'data-type': builtins.str:'ndarray', "
                                    "builtins.str:'values': ndarray[<i8|()|0700000000000000]}, "
                                    "builtins.str:'t': dict{builtins.str:'dims': "
                                    "tuple(builtins.str:'t'), builtins.str:'dtype': "
                                    "builtins.str:'datetime64[ns]', builtins.str:'attrs': "
                                    "dict{builtins.str:'axis': builtins.str:'T'}, "
                                    "builtins.str:'encoding': dict{}, builtins.str:'data-type': "
                                    "builtins.str:'PandasIndexingAdapter', builtins.str:'values': "
                                    'ndarray[<M8[ns]|(2,)|00008ab9359ae5150000d94acae8e515]}}, '
                                    "builtins.str:'attrs': dict{builtins.str:'chunked_with': "
                                    "builtins.str:'(({},), {})'}, builtins.str:'encoding': "
                                    'dict{}}, builtins.str:"[([\'s\', \'t\'], ({},), {})]", '
                                    'builtins.bool:True)',
 'tree-recorded|scalar|unknown': "list(dict{builtins.str:'type': builtins.str:'DataTree', "
                                 "builtins.str:'name': builtins.NoneType:None, "
                                 "builtins.str:'paths': list(builtins.str:'/'), "
                                 "builtins.str:'nodes': dict{builtins.str:'/': "
                                 "dict{builtins.str:'type': builtins.str:'Dataset', "
                                 "builtins.str:'sizes': dict{builtins.str:'t': builtins.int:2}, "
                                 "builtins.str:'data_vars': dict{}, builtins.str:'coords': "
                                 "dict{builtins.str:'s': dict{builtins.str:'dims': tuple(), "
                                 "builtins.str:'dtype': builtins.str:'int64', "
                                 "builtins.str:'attrs': dict{builtins.str:'scalar': "
                                 "builtins.bool:True}, builtins.str:'encoding': dict{}, "
                                 "builtins.str:'data-type': builtins.str:'ndarray', "
                                 "builtins.str:'values': ndarray[<i8|()|0700000000000000]}, "
                                 "builtins.str:'t': dict{builtins.str:'dims': "
                                 "tuple(builtins.str:'t'), builtins.str:'dtype': "
                                 "builtins.str:'datetime64[ns]', builtins.str:'attrs': "
                                 "dict{builtins.str:'axis': builtins.str:'T'}, "
                                 "builtins.str:'encoding': dict{}, builtins.str:'data-type': "
                                 "builtins.str:'PandasIndexingAdapter', builtins.str:'values': "
                                 'ndarray[<M8[ns]|(2,)|00008ab9359ae5150000d94acae8e515]}}, '
                                 "builtins.str:'attrs': dict{builtins.str:'chunked_with': "
                                 "builtins.str:'(({},), {})'}, builtins.str:'encoding': dict{}}}}, "
                                 'builtins.str:"[([\'s\', \'t\'], ({},), {}), ([\'s\', \'t\'], '
                                 '({},), {})]", builtins.bool:True)',
 'dataset|scalar|mixed': "list(raise builtins.ImportError: chunk manager 'dask' is not available. "
                         "Please make sure 'dask' is installed and importable., "
                         "builtins.str:'None', builtins.bool:True)",
 'tree|scalar|mixed': "list(raise builtins.ImportError: chunk manager 'dask' is not available. "
                      "Please make sure 'dask' is installed and importable., builtins.str:'None', "
                      'builtins.bool:True)',
 'dataset-recorded|scalar|mixed': "list(dict{builtins.str:'type': builtins.str:'Dataset', "
                                  "builtins.str:'sizes': dict{builtins.str:'t': builtins.int:2}, "
                                  "builtins.str:'data_vars': dict{}, builtins.str:'coords': "
                                  "dict{builtins.str:'s': dict{builtins.str:'dims': tuple(), "
                                  "builtins.str:'dtype': builtins.str:'int64', "
                                  "builtins.str:'attrs': dict{builtins.str:'scalar': "
                                  "builtins.bool:True}, builtins.str:'encoding': dict{}, "
                                  "builtins.str:'data-type': builtins.str:'ndarray', "
                                  "builtins.str:'values': ndarray[<i8|()|0700000000000000]}, "
                                  "builtins.str:'t': dict{builtins.str:'dims': "
                                  "tuple(builtins.str:'t'), builtins.str:'dtype': "
                                  "builtins.str:'datetime64[ns]', builtins.str:'attrs': "
                                  "dict{builtins.str:'axis': builtins.str:'T'}, "
                                  "builtins.str:'encoding': dict{}, builtins.str:'data-type': "
                                  "builtins.str:'PandasIndexingAdapter', builtins.str:'values': "
                                  'ndarray[<M8[ns]|(2,)|00008ab9359ae5150000d94acae8e515]}}, '
                                  "builtins.str:'attrs': dict{builtins.str:'chunked_with': "
                                  "builtins.str:'(({},), {})'}, builtins.str:'encoding': dict{}}, "
                                  'builtins.str:"[([\'s\', \'t\'], ({},), {})]", '
                                  'builtins.bool:True)',
 'tree-recorded|scalar|mixed': "list(dict{builtins.str:'type': builtins.str:'DataTree', "
                               "builtins.str:'name': builtins.NoneType:None, builtins.str:'paths': "
                               "list(builtins.str:'/'), builtins.str:'nodes': "
                               "dict{builtins.str:'/': dict{builtins.str:'type': "
                               "builtins.str:'Dataset', builtins.str:'sizes': "
                               "dict{builtins.str:'t': builtins.int:2}, builtins.str:'data_vars': "
                               "dict{}, builtins.str:'coords': dict{builtins.str:'s': "
                               "dict{builtins.str:'dims': tuple(), builtins.str:'dtype': "
                               "builtins.str:'int64', builtins.str:'attrs': "
                               "dict{builtins.str:'scalar': builtins.bool:True}, "
                               "builtins.str:'encoding': dict{}, builtins.str:'data-type': "
                               "builtins.str:'ndarray', builtins.str:'values': "
                               "ndarray[<i8|()|0700000000000000]}, builtins.str:'t': "
                               "dict{builtins.str:'dims': tuple(builtins.str:'t'), "
                               "builtins.str:'dtype': builtins.str:'datetime64[ns]', "
                               "builtins.str:'attrs': dict{builtins.str:'axis': builtins.str:'T'}, "
                               "builtins.str:'encoding': dict{}, builtins.str:'data-type': "
                               "builtins.str:'PandasIndexingAdapter', builtins.str:'values': "
                               'ndarray[<M8[ns]|(2,)|00008ab9359ae5150000d94acae8e515]}}, '
                               "builtins.str:'attrs': dict{builtins.str:'chunked_with': "
                               "builtins.str:'(({},), {})'}, builtins.str:'encoding': dict{}}}}, "
                               'builtins.str:"[([\'s\', \'t\'], ({},), {}), ([\'s\', \'t\'], '
                               '({},), {})]", builtins.bool:True)',
 'dataset|scalar|int': "list(raise builtins.AttributeError: 'int' object has no attribute 'items', "
                       "builtins.str:'None', builtins.bool:True)",
 'tree|scalar|int': "list(raise builtins.AttributeError: 'int' object has no attribute 'items', "
                    "builtins.str:'None', builtins.bool:True)",
 'dataset-recorded|scalar|int': "list(raise builtins.AttributeError: 'int' object has no attribute "
                                "'items', builtins.str:'[]', builtins.bool:True)",
 'tree-recorded|scalar|int': "list(raise builtins.AttributeError: 'int' object has no attribute "
                             "'items', builtins.str:'[]', builtins.bool:True)",
 'dataset|scalar|str': "list(raise builtins.AttributeError: 'str' object has no attribute 'items', "
                       "builtins.str:'None', builtins.bool:True)",
 'tree|scalar|str': "list(raise builtins.AttributeError: 'str' object has no attribute 'items', "
                    "builtins.str:'None', builtins.bool:True)",
 'dataset-recorded|scalar|str': "list(raise builtins.AttributeError: 'str' object has no attribute "
                                "'items', builtins.str:'[]', builtins.bool:True)",
 'tree-recorded|scalar|str': "list(raise builtins.AttributeError: 'str' object has no attribute "
                             "'items', builtins.str:'[]', builtins.bool:True)",
 'dataset|scalar|list': "list(raise builtins.AttributeError: 'list' object has no attribute "
                        "'items', builtins.str:'None', builtins.bool:True)",
 'tree|scalar|list': "list(raise builtins.AttributeError: 'list' object has no attribute 'items', "
                     "builtins.str:'None', builtins.bool:True)",
 'dataset-recorded|scalar|list': "list(raise builtins.AttributeError: 'list' object has no "
                                 "attribute 'items', builtins.str:'[]', builtins.bool:True)",
 'tree-recorded|scalar|list': "list(raise builtins.AttributeError: 'list' object has no attribute "
                              "'items', builtins.str:'[]', builtins.bool:True)",
 'dataset|scalar|tuple-keys': "list(raise builtins.ImportError: chunk manager 'dask' is not "
                              "available. Please make sure 'dask' is installed and importable., "
                              "builtins.str:'None', builtins.bool:True)",
 'tree|scalar|tuple-keys': "list(raise builtins.ImportError: chunk manager 'dask' is not "
                           "available. Please make sure 'dask' is installed and importable., "
                           "builtins.str:'None', builtins.bool:True)",
 'dataset-recorded|scalar|tuple-keys': "list(dict{builtins.str:'type': builtins.str:'Dataset', "
                                       "builtins.str:'sizes': dict{builtins.str:'t': "
                                       "builtins.int:2}, builtins.str:'data_vars': dict{}, "
                                       "builtins.str:'coords': dict{builtins.str:'s': "
                                       "dict{builtins.str:'dims': tuple(), builtins.str:'dtype': "
                                       "builtins.str:'int64', builtins.str:'attrs': "
                                       "dict{builtins.str:'scalar': builtins.bool:True}, "
                                       "builtins.str:'encoding': dict{}, builtins.str:'data-type': "
                                       "builtins.str:'ndarray', builtins.str:'values': "
                                       "ndarray[<i8|()|0700000000000000]}, builtins.str:'t': "
                                       "dict{builtins.str:'dims': tuple(builtins.str:'t'), "
                                       "builtins.str:'dtype': builtins.str:'datetime64[ns]', "
                                       "builtins.str:'attrs': dict{builtins.str:'axis': "
                                       "builtins.str:'T'}, builtins.str:'encoding': dict{}, "
                                       "builtins.str:'data-type': "
                                       "builtins.str:'PandasIndexingAdapter', "
                                       "builtins.str:'values': "
                                       'ndarray[<M8[ns]|(2,)|00008ab9359ae5150000d94acae8e515]}}, '
                                       "builtins.str:'attrs': dict{builtins.str:'chunked_with': "
                                       "builtins.str:'(({},), {})'}, builtins.str:'encoding': "
                                       'dict{}}, builtins.str:"[([\'s\', \'t\'], ({},), {})]", '
                                       'builtins.bool:True)',
 'tree-recorded|scalar|tuple-keys': "list(dict{builtins.str:'type': builtins.str:'DataTree', "
                                    "builtins.str:'name': builtins.NoneType:None, "
                                    "builtins.str:'paths': list(builtins.str:'/'), "
                                    "builtins.str:'nodes': dict{builtins.str:'/': "
                                    "dict{builtins.str:'type': builtins.str:'Dataset', "
                                    "builtins.str:'sizes': dict{builtins.str:'t': builtins.int:2}, "
                                    "builtins.str:'data_vars': dict{}, builtins.str:'coords': "
                                    "dict{builtins.str:'s': dict{builtins.str:'dims': tuple(), "
                                    "builtins.str:'dtype': builtins.str:'int64', "
                                    "builtins.str:'attrs': dict{builtins.str:'scalar': "
                                    "builtins.bool:True}, builtins.str:'encoding': dict{}, "
                                    "builtins.str:'data-type': builtins.str:'ndarray', "
                                    "builtins.str:'values': ndarray[<i8|()|0700000000000000]}, "
                                    "builtins.str:'t': dict{builtins.str:'dims': "
                                    "tuple(builtins.str:'t'), builtins.str:'dtype': "
                                    "builtins.str:'datetime64[ns]', builtins.str:'attrs': "
                                    "dict{builtins.str:'axis': builtins.str:'T'}, "
                                    "builtins.str:'encoding': dict{}, builtins.str:'data-type': "
                                    "builtins.str:'PandasIndexingAdapter', builtins.str:'values': "
                                    'ndarray[<M8[ns]|(2,)|00008ab9359ae5150000d94acae8e515]}}, '
                                    "builtins.str:'attrs': dict{builtins.str:'chunked_with': "
                                    "builtins.str:'(({},), {})'}, builtins.str:'encoding': "
                                    'dict{}}}}, builtins.str:"[([\'s\', \'t\'], ({},), {}), '
                                    '([\'s\', \'t\'], ({},), {})]", builtins.bool:True)',
 'dataset|conflict|none': "list(raise builtins.ValueError: conflicting sizes for dimension 'x': "
                          "length 5 on 'bad' and length 3 on {'x': 'c'}, builtins.str:'None', "
                          'builtins.bool:True)',
 'tree|conflict|none': "list(raise builtins.ValueError: conflicting sizes for dimension 'x': "
                       "length 5 on 'bad' and length 3 on {'x': 'c'}, builtins.str:'None', "
                       'builtins.bool:True)',
 'dataset|conflict|empty': "list(raise builtins.ValueError: conflicting sizes for dimension 'x': "
                           "length 5 on 'bad' and length 3 on {'x': 'c'}, builtins.str:'None', "
                           'builtins.bool:True)',
 'tree|conflict|empty': "list(raise builtins.ValueError: conflicting sizes for dimension 'x': "
                        "length 5 on 'bad' and length 3 on {'x': 'c'}, builtins.str:'None', "
                        'builtins.bool:True)',
 'dataset-recorded|conflict|empty': 'list(raise builtins.ValueError: conflicting sizes for '
                                    "dimension 'x': length 5 on 'bad' and length 3 on {'x': 'c'}, "
                                    "builtins.str:'[]', builtins.bool:True)",
 'tree-recorded|conflict|empty': 'list(raise builtins.ValueError: conflicting sizes for dimension '
                                 "'x': length 5 on 'bad' and length 3 on {'x': 'c'}, "
                                 "builtins.str:'[]', builtins.bool:True)",
 'dataset|conflict|x': "list(raise builtins.ValueError: conflicting sizes for dimension 'x': "
                       "length 5 on 'bad' and length 3 on {'x': 'c'}, builtins.str:'None', "
                       'builtins.bool:True)',
 'tree|conflict|x': "list(raise builtins.ValueError: conflicting sizes for dimension 'x': length 5 "
                    "on 'bad' and length 3 on {'x': 'c'}, builtins.str:'None', builtins.bool:True)",
 'dataset-recorded|conflict|x': 'list(raise builtins.ValueError: conflicting sizes for dimension '
                                "'x': length 5 on 'bad' and length 3 on {'x': 'c'}, "
                                "builtins.str:'[]', builtins.bool:True)",
 'tree-recorded|conflict|x': "list(raise builtins.ValueError: conflicting sizes for dimension 'x': "
                             "length 5 on 'bad' and length 3 on {'x': 'c'}, builtins.str:'[]', "
                             'builtins.bool:True)',
 'dataset|conflict|xy': "list(raise builtins.ValueError: conflicting sizes for dimension 'x': "
                        "length 5 on 'bad' and length 3 on {'x': 'c'}, builtins.str:'None', "
                        'builtins.bool:True)',
 'tree|conflict|xy': "list(raise builtins.ValueError: conflicting sizes for dimension 'x': length "
                     "5 on 'bad' and length 3 on {'x': 'c'}, builtins.str:'None', "
                     'builtins.bool:True)',
 'dataset-recorded|conflict|xy': 'list(raise builtins.ValueError: conflicting sizes for dimension '
                                 "'x': length 5 on 'bad' and length 3 on {'x': 'c'}, "
                                 "builtins.str:'[]', builtins.bool:True)",
 'tree-recorded|conflict|xy': 'list(raise builtins.ValueError: conflicting sizes for dimension '
                              "'x': length 5 on 'bad' and length 3 on {'x': 'c'}, "
                              "builtins.str:'[]', builtins.bool:True)",
 'dataset|conflict|yx': "list(raise builtins.ValueError: conflicting sizes for dimension 'x': "
                        "length 5 on 'bad' and length 3 on {'x': 'c'}, builtins.str:'None', "
                        'builtins.bool:True)',
 'tree|conflict|yx': "list(raise builtins.ValueError: conflicting sizes for dimension 'x': length "
                     "5 on 'bad' and length 3 on {'x': 'c'}, builtins.str:'None', "
                     'builtins.bool:True)',
 'dataset-recorded|conflict|yx': 'list(raise builtins.ValueError: conflicting sizes for dimension '
                                 "'x': length 5 on 'bad' and length 3 on {'x': 'c'}, "
                                 "builtins.str:'[]', builtins.bool:True)",
 'tree-recorded|conflict|yx': 'list(raise builtins.ValueError: conflicting sizes for dimension '
                              "'x': length 5 on 'bad' and length 3 on {'x': 'c'}, "
                              "builtins.str:'[]', builtins.bool:True)",
 'dataset|conflict|unknown': "list(raise builtins.ValueError: conflicting sizes for dimension 'x': "
                             "length 5 on 'bad' and length 3 on {'x': 'c'}, builtins.str:'None', "
                             'builtins.bool:True)',
 'tree|conflict|unknown': "list(raise builtins.ValueError: conflicting sizes for dimension 'x': "
                          "length 5 on 'bad' and length 3 on {'x': 'c'}, builtins.str:'None', "
                          'builtins.bool:True)',
 'dataset-recorded|conflict|unknown': 'list(raise builtins.ValueError: conflicting sizes for '
                                      "dimension 'x': length 5 on 'bad' and length 3 on {'x': "
                                      "'c'}, builtins.str:'[]', builtins.bool:True)",
 'tree-recorded|conflict|unknown': 'list(raise builtins.ValueError: conflicting sizes for '
                                   "dimension 'x': length 5 on 'bad' and length 3 on {'x': 'c'}, "
                                   "builtins.str:'[]', builtins.bool:True)",
 'dataset|conflict|mixed': "list(raise builtins.ValueError: conflicting sizes for dimension 'x': "
                           "length 5 on 'bad' and length 3 on {'x': 'c'}, builtins.str:'None', "
                           'builtins.bool:True)',
 'tree|conflict|mixed': "list(raise builtins.ValueError: conflicting sizes for dimension 'x': "
                        "length 5 on 'bad' and length 3 on {'x': 'c'}, builtins.str:'None', "
                        'builtins.bool:True)',
 'dataset-recorded|conflict|mixed': 'list(raise builtins.ValueError: conflicting sizes for '
                                    "dimension 'x': length 5 on 'bad' and length 3 on {'x': 'c'}, "
                                    "builtins.str:'[]', builtins.bool:True)",
 'tree-recorded|conflict|mixed': 'list(raise builtins.ValueError: conflicting sizes for dimension '
                                 "'x': length 5 on 'bad' and length 3 on {'x': 'c'}, "
                                 "builtins.str:'[]', builtins.bool:True)",
 'dataset|conflict|int': "list(raise builtins.ValueError: conflicting sizes for dimension 'x': "
                         "length 5 on 'bad' and length 3 on {'x': 'c'}, builtins.str:'None', "
                         'builtins.bool:True)',
 'tree|conflict|int': "list(raise builtins.ValueError: conflicting sizes for dimension 'x': length "
                      "5 on 'bad' and length 3 on {'x': 'c'}, builtins.str:'None', "
                      'builtins.bool:True)',
 'dataset-recorded|conflict|int': 'list(raise builtins.ValueError: conflicting sizes for dimension '
                                  "'x': length 5 on 'bad' and length 3 on {'x': 'c'}, "
                                  "builtins.str:'[]', builtins.bool:True)",
 'tree-recorded|conflict|int': 'list(raise builtins.ValueError: conflicting sizes for dimension '
                               "'x': length 5 on 'bad' and length 3 on {'x': 'c'}, "
                               "builtins.str:'[]', builtins.bool:True)",
 'dataset|conflict|str': "list(raise builtins.ValueError: conflicting sizes for dimension 'x': "
                         "length 5 on 'bad' and length 3 on {'x': 'c'}, builtins.str:'None', "
                         'builtins.bool:True)',
 'tree|conflict|str': "list(raise builtins.ValueError: conflicting sizes for dimension 'x': length "
                      "5 on 'bad' and length 3 on {'x': 'c'}, builtins.str:'None', "
                      'builtins.bool:True)',
 'dataset-recorded|conflict|str': 'list(raise builtins.ValueError: conflicting sizes for dimension '
                                  "'x': length 5 on 'bad' and length 3 on {'x': 'c'}, "
                                  "builtins.str:'[]', builtins.bool:True)",
 'tree-recorded|conflict|str': 'list(raise builtins.ValueError: conflicting sizes for dimension '
                               "'x': length 5 on 'bad' and length 3 on {'x': 'c'}, "
                               "builtins.str:'[]', builtins.bool:True)",
 'dataset|conflict|list': "list(raise builtins.ValueError: conflicting sizes for dimension 'x': "
                          "length 5 on 'bad' and length 3 on {'x': 'c'}, builtins.str:'None', "
                          'builtins.bool:True)',
 'tree|conflict|list': "list(raise builtins.ValueError: conflicting sizes for dimension 'x': "
                       "length 5 on 'bad' and length 3 on {'x': 'c'}, builtins.str:'None', "
                       'builtins.bool:True)',
 'dataset-recorded|conflict|list': 'list(raise builtins.ValueError: conflicting sizes for '
                                   "dimension 'x': length 5 on 'bad' and length 3 on {'x': 'c'}, "
                                   "builtins.str:'[]', builtins.bool:True)",
 'tree-recorded|conflict|list': 'list(raise builtins.ValueError: conflicting sizes for dimension '
                                "'x': length 5 on 'bad' and length 3 on {'x': 'c'}, "
                                "builtins.str:'[]', builtins.bool:True)",
 'dataset|conflict|tuple-keys': 'list(raise builtins.ValueError: conflicting sizes for dimension '
                                "'x': length 5 on 'bad' and length 3 on {'x': 'c'}, "
                                "builtins.str:'None', builtins.bool:True)",
 'tree|conflict|tuple-keys': "list(raise builtins.ValueError: conflicting sizes for dimension 'x': "
                             "length 5 on 'bad' and length 3 on {'x': 'c'}, builtins.str:'None', "
                             'builtins.bool:True)',
 'dataset-recorded|conflict|tuple-keys': 'list(raise builtins.ValueError: conflicting sizes for '
                                         "dimension 'x': length 5 on 'bad' and length 3 on {'x': "
                                         "'c'}, builtins.str:'[]', builtins.bool:True)",
 'tree-recorded|conflict|tuple-keys': 'list(raise builtins.ValueError: conflicting sizes for '
                                      "dimension 'x': length 5 on 'bad' and length 3 on {'x': "
                                      "'c'}, builtins.str:'[]', builtins.bool:True)",
 'dataset|image|none': "list(dict{builtins.str:'type': builtins.str:'Dataset', "
                       "builtins.str:'sizes': dict{builtins.str:'rows': builtins.int:4, "
                       "builtins.str:'cols': builtins.int:3, builtins.str:'x': builtins.int:3}, "
                       "builtins.str:'data_vars': dict{builtins.str:'data': "
                       "dict{builtins.str:'dims': tuple(builtins.str:'rows', builtins.str:'cols'), "
                       "builtins.str:'dtype': builtins.str:'uint16', builtins.str:'attrs': "
                       "dict{builtins.str:'units': builtins.str:'dn'}, builtins.str:'encoding': "
                       "dict{builtins.str:'preferred_chunksizes': dict{builtins.str:'rows': "
                       "builtins.int:2, builtins.str:'cols': builtins.int:3}}, "
                       "builtins.str:'data-type': builtins.str:'LazilyIndexedArray', "
                       "builtins.str:'values': ndarray[<u2|(4, "
                       '3)|0100040007000a000d0010001300160019001c001f002200]}}, '
                       "builtins.str:'coords': dict{builtins.str:'c': dict{builtins.str:'dims': "
                       "tuple(builtins.str:'x'), builtins.str:'dtype': builtins.str:'int8', "
                       "builtins.str:'attrs': dict{builtins.str:'a': builtins.int:1}, "
                       "builtins.str:'encoding': dict{}, builtins.str:'data-type': "
                       "builtins.str:'ndarray', builtins.str:'values': ndarray[|i1|(3,)|010203]}}, "
                       "builtins.str:'attrs': dict{builtins.str:'mode': builtins.str:'HH'}, "
                       "builtins.str:'encoding': dict{}}, builtins.str:'None', builtins.bool:True)",
 'tree|image|none': "list(dict{builtins.str:'type': builtins.str:'DataTree', builtins.str:'name': "
                    "builtins.NoneType:None, builtins.str:'paths': list(builtins.str:'/'), "
                    "builtins.str:'nodes': dict{builtins.str:'/': dict{builtins.str:'type': "
                    "builtins.str:'Dataset', builtins.str:'sizes': dict{builtins.str:'rows': "
                    "builtins.int:4, builtins.str:'cols': builtins.int:3, builtins.str:'x': "
                    "builtins.int:3}, builtins.str:'data_vars': dict{builtins.str:'data': "
                    "dict{builtins.str:'dims': tuple(builtins.str:'rows', builtins.str:'cols'), "
                    "builtins.str:'dtype': builtins.str:'uint16', builtins.str:'attrs': "
                    "dict{builtins.str:'units': builtins.str:'dn'}, builtins.str:'encoding': "
                    "dict{builtins.str:'preferred_chunksizes': dict{builtins.str:'rows': "
                    "builtins.int:2, builtins.str:'cols': builtins.int:3}}, "
                    "builtins.str:'data-type': builtins.str:'LazilyIndexedArray', "
                    "builtins.str:'values': ndarray[<u2|(4, "
                    '3)|0100040007000a000d0010001300160019001c001f002200]}}, '
                    "builtins.str:'coords': dict{builtins.str:'c': dict{builtins.str:'dims': "
                    "tuple(builtins.str:'x'), builtins.str:'dtype': builtins.str:'int8', "
                    "builtins.str:'attrs': dict{builtins.str:'a': builtins.int:1}, "
                    "builtins.str:'encoding': dict{}, builtins.str:'data-type': "
                    "builtins.str:'ndarray', builtins.str:'values': ndarray[|i1|(3,)|010203]}}, "
                    "builtins.str:'attrs': dict{builtins.str:'mode': builtins.str:'HH'}, "
                    "builtins.str:'encoding': dict{}}}}, builtins.str:'None', builtins.bool:True)",
 'dataset|image|empty': "list(raise builtins.ImportError: chunk manager 'dask' is not available. "
                        "Please make sure 'dask' is installed and importable., "
                        "builtins.str:'None', builtins.bool:True)",
 'tree|image|empty': "list(raise builtins.ImportError: chunk manager 'dask' is not available. "
                     "Please make sure 'dask' is installed and importable., builtins.str:'None', "
                     'builtins.bool:True)',
 'dataset-recorded|image|empty': "list(dict{builtins.str:'type': builtins.str:'Dataset', "
                                 "builtins.str:'sizes': dict{builtins.str:'rows': builtins.int:4, "
                                 "builtins.str:'cols': builtins.int:3, builtins.str:'x': "
                                 "builtins.int:3}, builtins.str:'data_vars': "
                                 "dict{builtins.str:'data': dict{builtins.str:'dims': "
                                 "tuple(builtins.str:'rows', builtins.str:'cols'), "
                                 "builtins.str:'dtype': builtins.str:'uint16', "
                                 "builtins.str:'attrs': dict{builtins.str:'units': "
                                 "builtins.str:'dn'}, builtins.str:'encoding': "
                                 "dict{builtins.str:'preferred_chunksizes': "
                                 "dict{builtins.str:'rows': builtins.int:2, builtins.str:'cols': "
                                 "builtins.int:3}}, builtins.str:'data-type': "
                                 "builtins.str:'LazilyIndexedArray', builtins.str:'values': "
                                 'ndarray[<u2|(4, '
                                 '3)|0100040007000a000d0010001300160019001c001f002200]}}, '
                                 "builtins.str:'coords': dict{builtins.str:'c': "
                                 "dict{builtins.str:'dims': tuple(builtins.str:'x'), "
                                 "builtins.str:'dtype': builtins.str:'int8', builtins.str:'attrs': "
                                 "dict{builtins.str:'a': builtins.int:1}, builtins.str:'encoding': "
                                 "dict{}, builtins.str:'data-type': builtins.str:'ndarray', "
                                 "builtins.str:'values': ndarray[|i1|(3,)|010203]}}, "
                                 "builtins.str:'attrs': dict{builtins.str:'mode': "
                                 "builtins.str:'HH', builtins.str:'chunked_with': "
                                 "builtins.str:'(({},), {})'}, builtins.str:'encoding': dict{}}, "
                                 'builtins.str:"[([\'c\', \'data\'], ({},), {})]", '
                                 'builtins.bool:True)',
 'tree-recorded|image|empty': "list(dict{builtins.str:'type': builtins.str:'DataTree', "
                              "builtins.str:'name': builtins.NoneType:None, builtins.str:'paths': "
                              "list(builtins.str:'/'), builtins.str:'nodes': "
                              "dict{builtins.str:'/': dict{builtins.str:'type': "
                              "builtins.str:'Dataset', builtins.str:'sizes': "
                              "dict{builtins.str:'rows': builtins.int:4, builtins.str:'cols': "
                              "builtins.int:3, builtins.str:'x': builtins.int:3}, "
                              "builtins.str:'data_vars': dict{builtins.str:'data': "
                              "dict{builtins.str:'dims': tuple(builtins.str:'rows', "
                              "builtins.str:'cols'), builtins.str:'dtype': builtins.str:'uint16', "
                              "builtins.str:'attrs': dict{builtins.str:'units': "
                              "builtins.str:'dn'}, builtins.str:'encoding': "
                              "dict{builtins.str:'preferred_chunksizes': dict{builtins.str:'rows': "
                              "builtins.int:2, builtins.str:'cols': builtins.int:3}}, "
                              "builtins.str:'data-type': builtins.str:'LazilyIndexedArray', "
                              "builtins.str:'values': ndarray[<u2|(4, "
                              '3)|0100040007000a000d0010001300160019001c001f002200]}}, '
                              "builtins.str:'coords': dict{builtins.str:'c': "
                              "dict{builtins.str:'dims': tuple(builtins.str:'x'), "
                              "builtins.str:'dtype': builtins.str:'int8', builtins.str:'attrs': "
                              "dict{builtins.str:'a': builtins.int:1}, builtins.str:'encoding': "
                              "dict{}, builtins.str:'data-type': builtins.str:'ndarray', "
                              "builtins.str:'values': ndarray[|i1|(3,)|010203]}}, "
                              "builtins.str:'attrs': dict{builtins.str:'mode': builtins.str:'HH', "
                              "builtins.str:'chunked_with': builtins.str:'(({},), {})'}, "
                              'builtins.str:\'encoding\': dict{}}}}, builtins.str:"[([\'c\', '
                              '\'data\'], ({},), {}), ([\'c\', \'data\'], ({},), {})]", '
                              'builtins.bool:True)',
 'dataset|image|x': "list(raise builtins.ImportError: chunk manager 'dask' is not available. "
                    "Please make sure 'dask' is installed and importable., builtins.str:'None', "
                    'builtins.bool:True)',
 'tree|image|x': "list(raise builtins.ImportError: chunk manager 'dask' is not available. Please "
                 "make sure 'dask' is installed and importable., builtins.str:'None', "
                 'builtins.bool:True)',
 'dataset-recorded|image|x': "list(dict{builtins.str:'type': builtins.str:'Dataset', "
                             "builtins.str:'sizes': dict{builtins.str:'rows': builtins.int:4, "
                             "builtins.str:'cols': builtins.int:3, builtins.str:'x': "
                             "builtins.int:3}, builtins.str:'data_vars': dict{builtins.str:'data': "
                             "dict{builtins.str:'dims': tuple(builtins.str:'rows', "
                             "builtins.str:'cols'), builtins.str:'dtype': builtins.str:'uint16', "
                             "builtins.str:'attrs': dict{builtins.str:'units': builtins.str:'dn'}, "
                             "builtins.str:'encoding': dict{builtins.str:'preferred_chunksizes': "
                             "dict{builtins.str:'rows': builtins.int:2, builtins.str:'cols': "
                             "builtins.int:3}}, builtins.str:'data-type': "
                             "builtins.str:'LazilyIndexedArray', builtins.str:'values': "
                             'ndarray[<u2|(4, '
                             '3)|0100040007000a000d0010001300160019001c001f002200]}}, '
                             "builtins.str:'coords': dict{builtins.str:'c': "
                             "dict{builtins.str:'dims': tuple(builtins.str:'x'), "
                             "builtins.str:'dtype': builtins.str:'int8', builtins.str:'attrs': "
                             "dict{builtins.str:'a': builtins.int:1}, builtins.str:'encoding': "
                             "dict{}, builtins.str:'data-type': builtins.str:'ndarray', "
                             "builtins.str:'values': ndarray[|i1|(3,)|010203]}}, "
                             "builtins.str:'attrs': dict{builtins.str:'mode': builtins.str:'HH', "
                             'builtins.str:\'chunked_with\': builtins.str:"(({\'x\': 1},), {})"}, '
                             'builtins.str:\'encoding\': dict{}}, builtins.str:"[([\'c\', '
                             '\'data\'], ({\'x\': 1},), {})]", builtins.bool:True)',
 'tree-recorded|image|x': "list(dict{builtins.str:'type': builtins.str:'DataTree', "
                          "builtins.str:'name': builtins.NoneType:None, builtins.str:'paths': "
                          "list(builtins.str:'/'), builtins.str:'nodes': dict{builtins.str:'/': "
                          "dict{builtins.str:'type': builtins.str:'Dataset', builtins.str:'sizes': "
                          "dict{builtins.str:'rows': builtins.int:4, builtins.str:'cols': "
                          "builtins.int:3, builtins.str:'x': builtins.int:3}, "
                          "builtins.str:'data_vars': dict{builtins.str:'data': "
                          "dict{builtins.str:'dims': tuple(builtins.str:'rows', "
                          "builtins.str:'cols'), builtins.str:'dtype': builtins.str:'uint16', "
                          "builtins.str:'attrs': dict{builtins.str:'units': builtins.str:'dn'}, "
                          "builtins.str:'encoding': dict{builtins.str:'preferred_chunksizes': "
                          "dict{builtins.str:'rows': builtins.int:2, builtins.str:'cols': "
                          "builtins.int:3}}, builtins.str:'data-type': "
                          "builtins.str:'LazilyIndexedArray', builtins.str:'values': "
                          'ndarray[<u2|(4, 3)|0100040007000a000d0010001300160019001c001f002200]}}, '
                          "builtins.str:'coords': dict{builtins.str:'c': dict{builtins.str:'dims': "
                          "tuple(builtins.str:'x'), builtins.str:'dtype': builtins.str:'int8', "
                          "builtins.str:'attrs': dict{builtins.str:'a': builtins.int:1}, "
                          "builtins.str:'encoding': dict{}, builtins.str:'data-type': "
                          "builtins.str:'ndarray', builtins.str:'values': "
                          "ndarray[|i1|(3,)|010203]}}, builtins.str:'attrs': "
                          "dict{builtins.str:'mode': builtins.str:'HH', "
                          'builtins.str:\'chunked_with\': builtins.str:"(({\'x\': 1},), {})"}, '
                          'builtins.str:\'encoding\': dict{}}}}, builtins.str:"[([\'c\', '
                          "'data'], ({'x': 1},), {}), (['c', 'data'], ({'x': 1},), "
                          '{})]", builtins.bool:True)',
 'dataset|image|xy': "list(raise builtins.ImportError: chunk manager 'dask' is not available. "
                     "Please make sure 'dask' is installed and importable., builtins.str:'None', "
                     'builtins.bool:True)',
 'tree|image|xy': "list(raise builtins.ImportError: chunk manager 'dask' is not available. Please "
                  "make sure 'dask' is installed and importable., builtins.str:'None', "
                  'builtins.bool:True)',
 'dataset-recorded|image|xy': "list(dict{builtins.str:'type': builtins.str:'Dataset', "
                              "builtins.str:'sizes': dict{builtins.str:'rows': builtins.int:4, "
                              "builtins.str:'cols': builtins.int:3, builtins.str:'x': "
                              "builtins.int:3}, builtins.str:'data_vars': "
                              "dict{builtins.str:'data': dict{builtins.str:'dims': "
                              "tuple(builtins.str:'rows', builtins.str:'cols'), "
                              "builtins.str:'dtype': builtins.str:'uint16', builtins.str:'attrs': "
                              "dict{builtins.str:'units': builtins.str:'dn'}, "
                              "builtins.str:'encoding': dict{builtins.str:'preferred_chunksizes': "
                              "dict{builtins.str:'rows': builtins.int:2, builtins.str:'cols': "
                              "builtins.int:3}}, builtins.str:'data-type': "
                              "builtins.str:'LazilyIndexedArray', builtins.str:'values': "
                              'ndarray[<u2|(4, '
                              '3)|0100040007000a000d0010001300160019001c001f002200]}}, '
                              "builtins.str:'coords': dict{builtins.str:'c': "
                              "dict{builtins.str:'dims': tuple(builtins.str:'x'), "
                              "builtins.str:'dtype': builtins.str:'int8', builtins.str:'attrs': "
                              "dict{builtins.str:'a': builtins.int:1}, builtins.str:'encoding': "
                              "dict{}, builtins.str:'data-type': builtins.str:'ndarray', "
                              "builtins.str:'values': ndarray[|i1|(3,)|010203]}}, "
                              "builtins.str:'attrs': dict{builtins.str:'mode': builtins.str:'HH', "
                              'builtins.str:\'chunked_with\': builtins.str:"(({\'x\': 1},), {})"}, '
                              'builtins.str:\'encoding\': dict{}}, builtins.str:"[([\'c\', '
                              '\'data\'], ({\'x\': 1},), {})]", builtins.bool:True)',
 'tree-recorded|image|xy': "list(dict{builtins.str:'type': builtins.str:'DataTree', "
                           "builtins.str:'name': builtins.NoneType:None, builtins.str:'paths': "
                           "list(builtins.str:'/'), builtins.str:'nodes': dict{builtins.str:'/': "
                           "dict{builtins.str:'type': builtins.str:'Dataset', "
                           "builtins.str:'sizes': dict{builtins.str:'rows': builtins.int:4, "
                           "builtins.str:'cols': builtins.int:3, builtins.str:'x': "
                           "builtins.int:3}, builtins.str:'data_vars': dict{builtins.str:'data': "
                           "dict{builtins.str:'dims': tuple(builtins.str:'rows', "
                           "builtins.str:'cols'), builtins.str:'dtype': builtins.str:'uint16', "
                           "builtins.str:'attrs': dict{builtins.str:'units': builtins.str:'dn'}, "
                           "builtins.str:'encoding': dict{builtins.str:'preferred_chunksizes': "
                           "dict{builtins.str:'rows': builtins.int:2, builtins.str:'cols': "
                           "builtins.int:3}}, builtins.str:'data-type': "
                           "builtins.str:'LazilyIndexedArray', builtins.str:'values': "
                           'ndarray[<u2|(4, '
                           '3)|0100040007000a000d0010001300160019001c001f002200]}}, '
                           "builtins.str:'coords': dict{builtins.str:'c': "
                           "dict{builtins.str:'dims': tuple(builtins.str:'x'), "
                           "builtins.str:'dtype': builtins.str:'int8', builtins.str:'attrs': "
                           "dict{builtins.str:'a': builtins.int:1}, builtins.str:'encoding': "
                           "dict{}, builtins.str:'data-type': builtins.str:'ndarray', "
                           "builtins.str:'values': ndarray[|i1|(3,)|010203]}}, "
                           "builtins.str:'attrs': dict{builtins.str:'mode': builtins.str:'HH', "
                           'builtins.str:\'chunked_with\': builtins.str:"(({\'x\': 1},), {})"}, '
                           'builtins.str:\'encoding\': dict{}}}}, builtins.str:"[([\'c\', '
                           "'data'], ({'x': 1},), {}), (['c', 'data'], ({'x': 1},), "
                           '{})]", builtins.bool:True)',
 'dataset|image|yx': "list(raise builtins.ImportError: chunk manager 'dask' is not available. "
                     "Please make sure 'dask' is installed and importable., builtins.str:'None', "
                     'builtins.bool:True)',
 'tree|image|yx': "list(raise builtins.ImportError: chunk manager 'dask' is not available. Please "
                  "make sure 'dask' is installed and importable., builtins.str:'None', "
                  'builtins.bool:True)',
 'dataset-recorded|image|yx': "list(dict{builtins.str:'type': builtins.str:'Dataset', "
                              "builtins.str:'sizes': dict{builtins.str:'rows': builtins.int:4, "
                              "builtins.str:'cols': builtins.int:3, builtins.str:'x': "
                              "builtins.int:3}, builtins.str:'data_vars': "
                              "dict{builtins.str:'data': dict{builtins.str:'dims': "
                              "tuple(builtins.str:'rows', builtins.str:'cols'), "
                              "builtins.str:'dtype': builtins.str:'uint16', builtins.str:'attrs': "
                              "dict{builtins.str:'units': builtins.str:'dn'}, "
                              "builtins.str:'encoding': dict{builtins.str:'preferred_chunksizes': "
                              "dict{builtins.str:'rows': builtins.int:2, builtins.str:'cols': "
                              "builtins.int:3}}, builtins.str:'data-type': "
                              "builtins.str:'LazilyIndexedArray', builtins.str:'values': "
                              'ndarray[<u2|(4, '
                              '3)|0100040007000a000d0010001300160019001c001f002200]}}, '
                              "builtins.str:'coords': dict{builtins.str:'c': "
                              "dict{builtins.str:'dims': tuple(builtins.str:'x'), "
                              "builtins.str:'dtype': builtins.str:'int8', builtins.str:'attrs': "
                              "dict{builtins.str:'a': builtins.int:1}, builtins.str:'encoding': "
                              "dict{}, builtins.str:'data-type': builtins.str:'ndarray', "
                              "builtins.str:'values': ndarray[|i1|(3,)|010203]}}, "
                              "builtins.str:'attrs': dict{builtins.str:'mode': builtins.str:'HH', "
                              'builtins.str:\'chunked_with\': builtins.str:"(({\'x\': -1},), '
                              '{})"}, builtins.str:\'encoding\': dict{}}, builtins.str:"[([\'c\', '
                              '\'data\'], ({\'x\': -1},), {})]", builtins.bool:True)',
 'tree-recorded|image|yx': "list(dict{builtins.str:'type': builtins.str:'DataTree', "
                           "builtins.str:'name': builtins.NoneType:None, builtins.str:'paths': "
                           "list(builtins.str:'/'), builtins.str:'nodes': dict{builtins.str:'/': "
                           "dict{builtins.str:'type': builtins.str:'Dataset', "
                           "builtins.str:'sizes': dict{builtins.str:'rows': builtins.int:4, "
                           "builtins.str:'cols': builtins.int:3, builtins.str:'x': "
                           "builtins.int:3}, builtins.str:'data_vars': dict{builtins.str:'data': "
                           "dict{builtins.str:'dims': tuple(builtins.str:'rows', "
                           "builtins.str:'cols'), builtins.str:'dtype': builtins.str:'uint16', "
                           "builtins.str:'attrs': dict{builtins.str:'units': builtins.str:'dn'}, "
                           "builtins.str:'encoding': dict{builtins.str:'preferred_chunksizes': "
                           "dict{builtins.str:'rows': builtins.int:2, builtins.str:'cols': "
                           "builtins.int:3}}, builtins.str:'data-type': "
                           "builtins.str:'LazilyIndexedArray', builtins.str:'values': "
                           'ndarray[<u2|(4, '
                           '3)|0100040007000a000d0010001300160019001c001f002200]}}, '
                           "builtins.str:'coords': dict{builtins.str:'c': "
                           "dict{builtins.str:'dims': tuple(builtins.str:'x'), "
                           "builtins.str:'dtype': builtins.str:'int8', builtins.str:'attrs': "
                           "dict{builtins.str:'a': builtins.int:1}, builtins.str:'encoding': "
                           "dict{}, builtins.str:'data-type': builtins.str:'ndarray', "
                           "builtins.str:'values': ndarray[|i1|(3,)|010203]}}, "
                           "builtins.str:'attrs': dict{builtins.str:'mode': builtins.str:'HH', "
                           'builtins.str:\'chunked_with\': builtins.str:"(({\'x\': -1},), {})"}, '
                           'builtins.str:\'encoding\': dict{}}}}, builtins.str:"[([\'c\', '
                           "'data'], ({'x': -1},), {}), (['c', 'data'], ({'x': -1},), "
                           '{})]", builtins.bool:True)',
 'dataset|image|unknown': "list(raise builtins.ImportError: chunk manager 'dask' is not available. "
                          "Please make sure 'dask' is installed and importable., "
                          "builtins.str:'None', builtins.bool:True)",
 'tree|image|unknown': "list(raise builtins.ImportError: chunk manager 'dask' is not available. "
                       "Please make sure 'dask' is installed and importable., builtins.str:'None', "
                       'builtins.bool:True)',
 'dataset-recorded|image|unknown': "list(dict{builtins.str:'type': builtins.str:'Dataset', "
                                   "builtins.str:'sizes': dict{builtins.str:'rows': "
                                   "builtins.int:4, builtins.str:'cols': builtins.int:3, "
                                   "builtins.str:'x': builtins.int:3}, builtins.str:'data_vars': "
                                   "dict{builtins.str:'data': dict{builtins.str:'dims': "
                                   "tuple(builtins.str:'rows', builtins.str:'cols'), "
                                   "builtins.str:'dtype': builtins.str:'uint16', "
                                   "builtins.str:'attrs': dict{builtins.str:'units': "
                                   "builtins.str:'dn'}, builtins.str:'encoding': "
                                   "dict{builtins.str:'preferred_chunksizes': "
                                   "dict{builtins.str:'rows': builtins.int:2, builtins.str:'cols': "
                                   "builtins.int:3}}, builtins.str:'data-type': "
                                   "builtins.str:'LazilyIndexedArray', builtins.str:'values': "
                                   'ndarray[<u2|(4, '
                                   '3)|0100040007000a000d0010001300160019001c001f002200]}}, '
                                   "builtins.str:'coords': dict{builtins.str:'c': "
                                   "dict{builtins.str:'dims': tuple(builtins.str:'x'), "
                                   "builtins.str:'dtype': builtins.str:'int8', "
                                   "builtins.str:'attrs': dict{builtins.str:'a': builtins.int:1}, "
                                   "builtins.str:'encoding': dict{}, builtins.str:'data-type': "
                                   "builtins.str:'ndarray', builtins.str:'values': "
                                   "ndarray[|i1|(3,)|010203]}}, builtins.str:'attrs': "
                                   "dict{builtins.str:'mode': builtins.str:'HH', "
                                   "builtins.str:'chunked_with': builtins.str:'(({},), {})'}, "
                                   'builtins.str:\'encoding\': dict{}}, builtins.str:"[([\'c\', '
                                   '\'data\'], ({},), {})]", builtins.bool:True)',
 'tree-recorded|image|unknown': "list(dict{builtins.str:'type': builtins.str:'DataTree', "
                                "builtins.str:'name': builtins.NoneType:None, "
                                "builtins.str:'paths': list(builtins.str:'/'), "
                                "builtins.str:'nodes': dict{builtins.str:'/': "
                                "dict{builtins.str:'type': builtins.str:'Dataset', "
                                "builtins.str:'sizes': dict{builtins.str:'rows': builtins.int:4, "
                                "builtins.str:'cols': builtins.int:3, builtins.str:'x': "
                                "builtins.int:3}, builtins.str:'data_vars': "
                                "dict{builtins.str:'data': dict{builtins.str:'dims': "
                                "tuple(builtins.str:'rows', builtins.str:'cols'), "
                                "builtins.str:'dtype': builtins.str:'uint16', "
                                "builtins.str:'attrs': dict{builtins.str:'units': "
                                "builtins.str:'dn'}, builtins.str:'encoding': "
                                "dict{builtins.str:'preferred_chunksizes': "
                                "dict{builtins.str:'rows': builtins.int:2, builtins.str:'cols': "
                                "builtins.int:3}}, builtins.str:'data-type': "
                                "builtins.str:'LazilyIndexedArray', builtins.str:'values': "
                                'ndarray[<u2|(4, '
                                '3)|0100040007000a000d0010001300160019001c001f002200]}}, '
                                "builtins.str:'coords': dict{builtins.str:'c': "
                                "dict{builtins.str:'dims': tuple(builtins.str:'x'), "
                                "builtins.str:'dtype': builtins.str:'int8', builtins.str:'attrs': "
                                "dict{builtins.str:'a': builtins.int:1}, builtins.str:'encoding': "
                                "dict{}, builtins.str:'data-type': builtins.str:'ndarray', "
                                "builtins.str:'values': ndarray[|i1|(3,)|010203]}}, "
                                "builtins.str:'attrs': dict{builtins.str:'mode': "
                                "builtins.str:'HH', builtins.str:'chunked_with': "
                                "builtins.str:'(({},), {})'}, builtins.str:'encoding': dict{}}}}, "
                                'builtins.str:"[([\'c\', \'data\'], ({},), {}), ([\'c\', '
                                '\'data\'], ({},), {})]", builtins.bool:True)',
 'dataset|image|mixed': "list(raise builtins.ImportError: chunk manager 'dask' is not available. "
                        "Please make sure 'dask' is installed and importable., "
                        "builtins.str:'None', builtins.bool:True)",
 'tree|image|mixed': "list(raise builtins.ImportError: chunk manager 'dask' is not available. "
                     "Please make sure 'dask' is installed and importable., builtins.str:'None', "
                     'builtins.bool:True)',
 'dataset-recorded|image|mixed': "list(dict{builtins.str:'type': builtins.str:'Dataset', "
                                 "builtins.str:'sizes': dict{builtins.str:'rows': builtins.int:4, "
                                 "builtins.str:'cols': builtins.int:3, builtins.str:'x': "
                                 "builtins.int:3}, builtins.str:'data_vars': "
                                 "dict{builtins.str:'data': dict{builtins.str:'dims': "
                                 "tuple(builtins.str:'rows', builtins.str:'cols'), "
                                 "builtins.str:'dtype': builtins.str:'uint16', "
                                 "builtins.str:'attrs': dict{builtins.str:'units': "
                                 "builtins.str:'dn'}, builtins.str:'encoding': "
                                 "dict{builtins.str:'preferred_chunksizes': "
                                 "dict{builtins.str:'rows': builtins.int:2, builtins.str:'cols': "
                                 "builtins.int:3}}, builtins.str:'data-type': "
                                 "builtins.str:'LazilyIndexedArray', builtins.str:'values': "
                                 'ndarray[<u2|(4, '
                                 '3)|0100040007000a000d0010001300160019001c001f002200]}}, '
                                 "builtins.str:'coords': dict{builtins.str:'c': "
                                 "dict{builtins.str:'dims': tuple(builtins.str:'x'), "
                                 "builtins.str:'dtype': builtins.str:'int8', builtins.str:'attrs': "
                                 "dict{builtins.str:'a': builtins.int:1}, builtins.str:'encoding': "
                                 "dict{}, builtins.str:'data-type': builtins.str:'ndarray', "
                                 "builtins.str:'values': ndarray[|i1|(3,)|010203]}}, "
                                 "builtins.str:'attrs': dict{builtins.str:'mode': "
                                 "builtins.str:'HH', builtins.str:'chunked_with': "
                                 'builtins.str:"(({\'rows\': 2, \'cols\': -1, \'x\': \'auto\'},), '
                                 '{})"}, builtins.str:\'encoding\': dict{}}, '
                                 'builtins.str:"[([\'c\', \'data\'], ({\'rows\': 2, \'cols\': -1, '
                                 '\'x\': \'auto\'},), {})]", builtins.bool:True)',
 'tree-recorded|image|mixed': "list(dict{builtins.str:'type': builtins.str:'DataTree', "
                              "builtins.str:'name': builtins.NoneType:None, builtins.str:'paths': "
                              "list(builtins.str:'/'), builtins.str:'nodes': "
                              "dict{builtins.str:'/': dict{builtins.str:'type': "
                              "builtins.str:'Dataset', builtins.str:'sizes': "
                              "dict{builtins.str:'rows': builtins.int:4, builtins.str:'cols': "
                              "builtins.int:3, builtins.str:'x': builtins.int:3}, "
                              "builtins.str:'data_vars': dict{builtins.str:'data': "
                              "dict{builtins.str:'dims': tuple(builtins.str:'rows', "
                              "builtins.str:'cols'), builtins.str:'dtype': builtins.str:'uint16', "
                              "builtins.str:'attrs': dict{builtins.str:'units': "
                              "builtins.str:'dn'}, builtins.str:'encoding': "
                              "dict{builtins.str:'preferred_chunksizes': dict{builtins.str:'rows': "
                              "builtins.int:2, builtins.str:'cols': builtins.int:3}}, "
                              "builtins.str:'data-type': builtins.str:'LazilyIndexedArray', "
                              "builtins.str:'values': ndarray[<u2|(4, "
                              '3)|0100040007000a000d0010001300160019001c001f002200]}}, '
                              "builtins.str:'coords': dict{builtins.str:'c': "
                              "dict{builtins.str:'dims': tuple(builtins.str:'x'), "
                              "builtins.str:'dtype': builtins.str:'int8', builtins.str:'attrs': "
                              "dict{builtins.str:'a': builtins.int:1}, builtins.str:'encoding': "
                              "dict{}, builtins.str:'data-type': builtins.str:'ndarray', "
                              "builtins.str:'values': ndarray[|i1|(3,)|010203]}}, "
                              "builtins.str:'attrs': dict{builtins.str:'mode': builtins.str:'HH', "
                              'builtins.str:\'chunked_with\': builtins.str:"(({\'rows\': 2, '
                              '\'cols\': -1, \'x\': \'auto\'},), {})"}, builtins.str:\'encoding\': '
                              'dict{}}}}, builtins.str:"[([\'c\', \'data\'], ({\'rows\': 2, '
                              "'cols': -1, 'x': 'auto'},), {}), (['c', 'data'], ({'rows': 2, "
                              '\'cols\': -1, \'x\': \'auto\'},), {})]", builtins.bool:True)',
 'dataset|image|int': "list(raise builtins.AttributeError: 'int' object has no attribute 'items', "
                      "builtins.str:'None', builtins.bool:True)",
 'tree|image|int': "list(raise builtins.AttributeError: 'int' object has no attribute 'items', "
                   "builtins.str:'None', builtins.bool:True)",
 'dataset-recorded|image|int': "list(raise builtins.AttributeError: 'int' object has no attribute "
                               "'items', builtins.str:'[]', builtins.bool:True)",
 'tree-recorded|image|int': "list(raise builtins.AttributeError: 'int' object has no attribute "
                            "'items', builtins.str:'[]', builtins.bool:True)",
 'dataset|image|str': "list(raise builtins.AttributeError: 'str' object has no attribute 'items', "
                      "builtins.str:'None', builtins.bool:True)",
 'tree|image|str': "list(raise builtins.AttributeError: 'str' object has no attribute 'items', "
                   "builtins.str:'None', builtins.bool:True)",
 'dataset-recorded|image|str': "list(raise builtins.AttributeError: 'str' object has no attribute "
                               "'items', builtins.str:'[]', builtins.bool:True)",
 'tree-recorded|image|str': "list(raise builtins.AttributeError: 'str' object has no attribute "
                            "'items', builtins.str:'[]', builtins.bool:True)",
 'dataset|image|list': "list(raise builtins.AttributeError: 'list' object has no attribute "
                       "'items', builtins.str:'None', builtins.bool:True)",
 'tree|image|list': "list(raise builtins.AttributeError: 'list' object has no attribute 'items', "
                    "builtins.str:'None', builtins.bool:True)",
 'dataset-recorded|image|list': "list(raise builtins.AttributeError: 'list' object has no "
                                "attribute 'items', builtins.str:'[]', builtins.bool:True)",
 'tree-recorded|image|list': "list(raise builtins.AttributeError: 'list' object has no attribute "
                             "'items', builtins.str:'[]', builtins.bool:True)",
 'dataset|image|tuple-keys': "list(raise builtins.ImportError: chunk manager 'dask' is not "
                             "available. Please make sure 'dask' is installed and importable., "
                             "builtins.str:'None', builtins.bool:True)",
 'tree|image|tuple-keys': "list(raise builtins.ImportError: chunk manager 'dask' is not available. "
                          "Please make sure 'dask' is installed and importable., "
                          "builtins.str:'None', builtins.bool:True)",
 'dataset-recorded|image|tuple-keys': "list(dict{builtins.str:'type': builtins.str:'Dataset', "
                                      "builtins.str:'sizes': dict{builtins.str:'rows': "
                                      "builtins.int:4, builtins.str:'cols': builtins.int:3, "
                                      "builtins.str:'x': builtins.int:3}, "
                                      "builtins.str:'data_vars': dict{builtins.str:'data': "
                                      "dict{builtins.str:'dims': tuple(builtins.str:'rows', "
                                      "builtins.str:'cols'), builtins.str:'dtype': "
                                      "builtins.str:'uint16', builtins.str:'attrs': "
                                      "dict{builtins.str:'units': builtins.str:'dn'}, "
                                      "builtins.str:'encoding': "
                                      "dict{builtins.str:'preferred_chunksizes': "
                                      "dict{builtins.str:'rows': builtins.int:2, "
                                      "builtins.str:'cols': builtins.int:3}}, "
                                      "builtins.str:'data-type': "
                                      "builtins.str:'LazilyIndexedArray', builtins.str:'values': "
                                      'ndarray[<u2|(4, '
                                      '3)|0100040007000a000d0010001300160019001c001f002200]}}, '
                                      "builtins.str:'coords': dict{builtins.str:'c': "
                                      "dict{builtins.str:'dims': tuple(builtins.str:'x'), "
                                      "builtins.str:'dtype': builtins.str:'int8', "
                                      "builtins.str:'attrs': dict{builtins.str:'a': "
                                      "builtins.int:1}, builtins.str:'encoding': dict{}, "
                                      "builtins.str:'data-type': builtins.str:'ndarray', "
                                      "builtins.str:'values': ndarray[|i1|(3,)|010203]}}, "
                                      "builtins.str:'attrs': dict{builtins.str:'mode': "
                                      "builtins.str:'HH', builtins.str:'chunked_with': "
                                      "builtins.str:'(({},), {})'}, builtins.str:'encoding': "
                                      'dict{}}, builtins.str:"[([\'c\', \'data\'], ({},), {})]", '
                                      'builtins.bool:True)',
 'tree-recorded|image|tuple-keys': "list(dict{builtins.str:'type': builtins.str:'DataTree', "
                                   "builtins.str:'name': builtins.NoneType:None, "
                                   "builtins.str:'paths': list(builtins.str:'/'), "
                                   "builtins.str:'nodes': dict{builtins.str:'/': "
                                   "dict{builtins.str:'type': builtins.str:'Dataset', "
                                   "builtins.str:'sizes': dict{builtins.str:'rows': "
                                   "builtins.int:4, builtins.str:'cols': builtins.int:3, "
                                   "builtins.str:'x': builtins.int:3}, builtins.str:'data_vars': "
                                   "dict{builtins.str:'data': dict{builtins.str:'dims': "
                                   "tuple(builtins.str:'rows', builtins.str:'cols'), "
                                   "builtins.str:'dtype': builtins.str:'uint16', "
                                   "builtins.str:'attrs': dict{builtins.str:'units': "
                                   "builtins.str:'dn'}, builtins.str:'encoding': "
                                   "dict{builtins.str:'preferred_chunksizes': "
                                   "dict{builtins.str:'rows': builtins.int:2, builtins.str:'cols': "
                                   "builtins.int:3}}, builtins.str:'data-type': "
                                   "builtins.str:'LazilyIndexedArray', builtins.str:'values': "
                                   'ndarray[<u2|(4, '
                                   '3)|0100040007000a000d0010001300160019001c001f002200]}}, '
                                   "builtins.str:'coords': dict{builtins.str:'c': "
                                   "dict{builtins.str:'dims': tuple(builtins.str:'x'), "
                                   "builtins.str:'dtype': builtins.str:'int8', "
                                   "builtins.str:'attrs': dict{builtins.str:'a': builtins.int:1}, "
                                   "builtins.str:'encoding': dict{}, builtins.str:'data-type': "
                                   "builtins.str:'ndarray', builtins.str:'values': "
                                   "ndarray[|i1|(3,)|010203]}}, builtins.str:'attrs': "
                                   "dict{builtins.str:'mode': builtins.str:'HH', "
                                   "builtins.str:'chunked_with': builtins.str:'(({},), {})'}, "
                                   'builtins.str:\'encoding\': dict{}}}}, builtins.str:"[([\'c\', '
                                   '\'data\'], ({},), {}), ([\'c\', \'data\'], ({},), {})]", '
                                   'builtins.bool:True)',
 'dataset|nested|none': "list(dict{builtins.str:'type': builtins.str:'Dataset', "
                        "builtins.str:'sizes': dict{builtins.str:'x': builtins.int:3}, "
                        "builtins.str:'data_vars': dict{builtins.str:'c': "
                        "dict{builtins.str:'dims': tuple(builtins.str:'x'), builtins.str:'dtype': "
                        "builtins.str:'int8', builtins.str:'attrs': dict{builtins.str:'a': "
                        "builtins.int:1}, builtins.str:'encoding': dict{}, "
                        "builtins.str:'data-type': builtins.str:'ndarray', builtins.str:'values': "
                        "ndarray[|i1|(3,)|010203]}}, builtins.str:'coords': dict{}, "
                        "builtins.str:'attrs': dict{}, builtins.str:'encoding': dict{}}, "
                        "builtins.str:'None', builtins.bool:True)",
 'tree|nested|none': "list(dict{builtins.str:'type': builtins.str:'DataTree', builtins.str:'name': "
                     "builtins.NoneType:None, builtins.str:'paths': list(builtins.str:'/', "
                     "builtins.str:'/d'), builtins.str:'nodes': dict{builtins.str:'/': "
                     "dict{builtins.str:'type': builtins.str:'Dataset', builtins.str:'sizes': "
                     "dict{builtins.str:'x': builtins.int:3}, builtins.str:'data_vars': "
                     "dict{builtins.str:'c': dict{builtins.str:'dims': tuple(builtins.str:'x'), "
                     "builtins.str:'dtype': builtins.str:'int8', builtins.str:'attrs': "
                     "dict{builtins.str:'a': builtins.int:1}, builtins.str:'encoding': dict{}, "
                     "builtins.str:'data-type': builtins.str:'ndarray', builtins.str:'values': "
                     "ndarray[|i1|(3,)|010203]}}, builtins.str:'coords': dict{}, "
                     "builtins.str:'attrs': dict{}, builtins.str:'encoding': dict{}}, "
                     "builtins.str:'/d': dict{builtins.str:'type': builtins.str:'Dataset', "
                     "builtins.str:'sizes': dict{builtins.str:'x': builtins.int:3, "
                     "builtins.str:'y': builtins.int:4}, builtins.str:'data_vars': "
                     "dict{builtins.str:'e': dict{builtins.str:'dims': tuple(builtins.str:'x', "
                     "builtins.str:'y'), builtins.str:'dtype': builtins.str:'int64', "
                     "builtins.str:'attrs': dict{builtins.str:'b': builtins.str:'abc'}, "
                     "builtins.str:'encoding': dict{}, builtins.str:'data-type': "
                     "builtins.str:'ndarray', builtins.str:'values': ndarray[<i8|(3, "
                     '4)|00000000000000000100000000000000020000000000000003000000000000000400000000000000050000000000000006000000000000000700000000000000080000000000000009000000000000000a000000000000000b00000000000000]}}, '
                     "builtins.str:'coords': dict{}, builtins.str:'attrs': dict{}, "
                     "builtins.str:'encoding': dict{}}}}, builtins.str:'None', builtins.bool:True)",
 'dataset|nested|empty': "list(raise builtins.ImportError: chunk manager 'dask' is not available. "
                         "Please make sure 'dask' is installed and importable., "
                         "builtins.str:'None', builtins.bool:True)",
 'tree|nested|empty': "list(raise builtins.ImportError: chunk manager 'dask' is not available. "
                      "Please make sure 'dask' is installed and importable., builtins.str:'None', "
                      'builtins.bool:True)',
 'dataset-recorded|nested|empty': "list(dict{builtins.str:'type': builtins.str:'Dataset', "
                                  "builtins.str:'sizes': dict{builtins.str:'x': builtins.int:3}, "
                                  "builtins.str:'data_vars': dict{builtins.str:'c': "
                                  "dict{builtins.str:'dims': tuple(builtins.str:'x'), "
                                  "builtins.str:'dtype': builtins.str:'int8', "
                                  "builtins.str:'attrs': dict{builtins.str:'a': builtins.int:1}, "
                                  "builtins.str:'encoding': dict{}, builtins.str:'data-type': "
                                  "builtins.str:'ndarray', builtins.str:'values': "
                                  "ndarray[|i1|(3,)|010203]}}, builtins.str:'coords': dict{}, "
                                  "builtins.str:'attrs': dict{builtins.str:'chunked_with': "
                                  "builtins.str:'(({},), {})'}, builtins.str:'encoding': dict{}}, "
                                  'builtins.str:"[([\'c\'], ({},), {})]", builtins.bool:True)',
 'tree-recorded|nested|empty': "list(dict{builtins.str:'type': builtins.str:'DataTree', "
                               "builtins.str:'name': builtins.NoneType:None, builtins.str:'paths': "
                               "list(builtins.str:'/', builtins.str:'/d'), builtins.str:'nodes': "
                               "dict{builtins.str:'/': dict{builtins.str:'type': "
                               "builtins.str:'Dataset', builtins.str:'sizes': "
                               "dict{builtins.str:'x': builtins.int:3}, builtins.str:'data_vars': "
                               "dict{builtins.str:'c': dict{builtins.str:'dims': "
                               "tuple(builtins.str:'x'), builtins.str:'dtype': "
                               "builtins.str:'int8', builtins.str:'attrs': dict{builtins.str:'a': "
                               "builtins.int:1}, builtins.str:'encoding': dict{}, "
                               "builtins.str:'data-type': builtins.str:'ndarray', "
                               "builtins.str:'values': ndarray[|i1|(3,)|010203]}}, "
                               "builtins.str:'coords': dict{}, builtins.str:'attrs': "
                               "dict{builtins.str:'chunked_with': builtins.str:'(({},), {})'}, "
                               "builtins.str:'encoding': dict{}}, builtins.str:'/d': "
                               "dict{builtins.str:'type': builtins.str:'Dataset', "
                               "builtins.str:'sizes': dict{builtins.str:'x': builtins.int:3, "
                               "builtins.str:'y': builtins.int:4}, builtins.str:'data_vars': "
                               "dict{builtins.str:'e': dict{builtins.str:'dims': "
                               "tuple(builtins.str:'x', builtins.str:'y'), builtins.str:'dtype': "
                               "builtins.str:'int64', builtins.str:'attrs': dict{builtins.str:'b': "
                               "builtins.str:'abc'}, builtins.str:'encoding': dict{}, "
                               "builtins.str:'data-type': builtins.str:'ndarray', "
                               "builtins.str:'values': ndarray[<i8|(3, "
                               '4)|00000000000000000100000000000000020000000000000003000000000000000400000000000000050000000000000006000000000000000700000000000000080000000000000009000000000000000a000000000000000b00000000000000]}}, '
                               "builtins.str:'coords': dict{}, builtins.str:'attrs': "
                               "dict{builtins.str:'chunked_with': builtins.str:'(({},), {})'}, "
                               'builtins.str:\'encoding\': dict{}}}}, builtins.str:"[([\'c\'], '
                               '({},), {}), ([\'c\'], ({},), {}), ([\'e\'], ({},), {})]", '
                               'builtins.bool:True)',
 'dataset|nested|x': "list(raise builtins.ImportError: chunk manager 'dask' is not available. "
                     "Please make sure 'dask' is installed and importable., builtins.str:'None', "
                     'builtins.bool:True)',
 'tree|nested|x': "list(raise builtins.ImportError: chunk manager 'dask' is not available. Please "
                  "make sure 'dask' is installed and importable., builtins.str:'None', "
                  'builtins.bool:True)',
 'dataset-recorded|nested|x': "list(dict{builtins.str:'type': builtins.str:'Dataset', "
                              "builtins.str:'sizes': dict{builtins.str:'x': builtins.int:3}, "
                              "builtins.str:'data_vars': dict{builtins.str:'c': "
                              "dict{builtins.str:'dims': tuple(builtins.str:'x'), "
                              "builtins.str:'dtype': builtins.str:'int8', builtins.str:'attrs': "
                              "dict{builtins.str:'a': builtins.int:1}, builtins.str:'encoding': "
                              "dict{}, builtins.str:'data-type': builtins.str:'ndarray', "
                              "builtins.str:'values': ndarray[|i1|(3,)|010203]}}, "
                              "builtins.str:'coords': dict{}, builtins.str:'attrs': "
                              'dict{builtins.str:\'chunked_with\': builtins.str:"(({\'x\': 1},), '
                              '{})"}, builtins.str:\'encoding\': dict{}}, builtins.str:"[([\'c\'], '
                              '({\'x\': 1},), {})]", builtins.bool:True)',
 'tree-recorded|nested|x': "list(dict{builtins.str:'type': builtins.str:'DataTree', "
                           "builtins.str:'name': builtins.NoneType:None, builtins.str:'paths': "
                           "list(builtins.str:'/', builtins.str:'/d'), builtins.str:'nodes': "
                           "dict{builtins.str:'/': dict{builtins.str:'type': "
                           "builtins.str:'Dataset', builtins.str:'sizes': dict{builtins.str:'x': "
                           "builtins.int:3}, builtins.str:'data_vars': dict{builtins.str:'c': "
                           "dict{builtins.str:'dims': tuple(builtins.str:'x'), "
                           "builtins.str:'dtype': builtins.str:'int8', builtins.str:'attrs': "
                           "dict{builtins.str:'a': builtins.int:1}, builtins.str:'encoding': "
                           "dict{}, builtins.str:'data-type': builtins.str:'ndarray', "
                           "builtins.str:'values': ndarray[|i1|(3,)|010203]}}, "
                           "builtins.str:'coords': dict{}, builtins.str:'attrs': "
                           'dict{builtins.str:\'chunked_with\': builtins.str:"(({\'x\': 1},), '
                           '{})"}, builtins.str:\'encoding\': dict{}}, builtins.str:\'/d\': '
                           "dict{builtins.str:'type': builtins.str:'Dataset', "
                           "builtins.str:'sizes': dict{builtins.str:'x': builtins.int:3, "
                           "builtins.str:'y': builtins.int:4}, builtins.str:'data_vars': "
                           "dict{builtins.str:'e': dict{builtins.str:'dims': "
                           "tuple(builtins.str:'x', builtins.str:'y'), builtins.str:'dtype': "
                           "builtins.str:'int64', builtins.str:'attrs': dict{builtins.str:'b': "
                           "builtins.str:'abc'}, builtins.str:'encoding': dict{}, "
                           "builtins.str:'data-type': builtins.str:'ndarray', "
                           "builtins.str:'values': ndarray[<i8|(3, "
                           '4)|00000000000000000100000000000000020000000000000003000000000000000400000000000000050000000000000006000000000000000700000000000000080000000000000009000000000000000a000000000000000b00000000000000]}}, '
                           "builtins.str:'coords': dict{}, builtins.str:'attrs': "
                           'dict{builtins.str:\'chunked_with\': builtins.str:"(({\'x\': 1},), '
                           '{})"}, builtins.str:\'encoding\': dict{}}}}, builtins.str:"[([\'c\'], '
                           "({'x': 1},), {}), (['c'], ({'x': 1},), {}), (['e'], ({'x': 1},), "
                           '{})]", builtins.bool:True)',
 'dataset|nested|xy': "list(raise builtins.ImportError: chunk manager 'dask' is not available. "
                      "Please make sure 'dask' is installed and importable., builtins.str:'None', "
                      'builtins.bool:True)',
 'tree|nested|xy': "list(raise builtins.ImportError: chunk manager 'dask' is not available. Please "
                   "make sure 'dask' is installed and importable., builtins.str:'None', "
                   'builtins.bool:True)',
 'dataset-recorded|nested|xy': "list(dict{builtins.str:'type': builtins.str:'Dataset', "
                               "builtins.str:'sizes': dict{builtins.str:'x': builtins.int:3}, "
                               "builtins.str:'data_vars': dict{builtins.str:'c': "
                               "dict{builtins.str:'dims': tuple(builtins.str:'x'), "
                               "builtins.str:'dtype': builtins.str:'int8', builtins.str:'attrs': "
                               "dict{builtins.str:'a': builtins.int:1}, builtins.str:'encoding': "
                               "dict{}, builtins.str:'data-type': builtins.str:'ndarray', "
                               "builtins.str:'values': ndarray[|i1|(3,)|010203]}}, "
                               "builtins.str:'coords': dict{}, builtins.str:'attrs': "
                               'dict{builtins.str:\'chunked_with\': builtins.str:"(({\'x\': 1},), '
                               '{})"}, builtins.str:\'encoding\': dict{}}, '
                               'builtins.str:"[([\'c\'], ({\'x\': 1},), {})]", builtins.bool:True)',
 'tree-recorded|nested|xy': "list(dict{builtins.str:'type': builtins.str:'DataTree', "
                            "builtins.str:'name': builtins.NoneType:None, builtins.str:'paths': "
                            "list(builtins.str:'/', builtins.str:'/d'), builtins.str:'nodes': "
                            "dict{builtins.str:'/': dict{builtins.str:'type': "
                            "builtins.str:'Dataset', builtins.str:'sizes': dict{builtins.str:'x': "
                            "builtins.int:3}, builtins.str:'data_vars': dict{builtins.str:'c': "
                            "dict{builtins.str:'dims': tuple(builtins.str:'x'), "
                            "builtins.str:'dtype': builtins.str:'int8', builtins.str:'attrs': "
                            "dict{builtins.str:'a': builtins.int:1}, builtins.str:'encoding': "
                            "dict{}, builtins.str:'data-type': builtins.str:'ndarray', "
                            "builtins.str:'values': ndarray[|i1|(3,)|010203]}}, "
                            "builtins.str:'coords': dict{}, builtins.str:'attrs': "
                            'dict{builtins.str:\'chunked_with\': builtins.str:"(({\'x\': 1},), '
                            '{})"}, builtins.str:\'encoding\': dict{}}, builtins.str:\'/d\': '
                            "dict{builtins.str:'type': builtins.str:'Dataset', "
                            "builtins.str:'sizes': dict{builtins.str:'x': builtins.int:3, "
                            "builtins.str:'y': builtins.int:4}, builtins.str:'data_vars': "
                            "dict{builtins.str:'e': dict{builtins.str:'dims': "
                            "tuple(builtins.str:'x', builtins.str:'y'), builtins.str:'dtype': "
                            "builtins.str:'int64', builtins.str:'attrs': dict{builtins.str:'b': "
                            "builtins.str:'abc'}, builtins.str:'encoding': dict{}, "
                            "builtins.str:'data-type': builtins.str:'ndarray', "
                            "builtins.str:'values': ndarray[<i8|(3, "
                            '4)|00000000000000000100000000000000020000000000000003000000000000000400000000000000050000000000000006000000000000000700000000000000080000000000000009000000000000000a000000000000000b00000000000000]}}, '
                            "builtins.str:'coords': dict{}, builtins.str:'attrs': "
                            'dict{builtins.str:\'chunked_with\': builtins.str:"(({\'x\': 1, \'y\': '
                            '2},), {})"}, builtins.str:\'encoding\': dict{}}}}, '
                            'builtins.str:"[([\'c\'], ({\'x\': 1},), {}), ([\'c\'], ({\'x\': 1},), '
                            '{}), ([\'e\'], ({\'x\': 1, \'y\': 2},), {})]", builtins.bool:True)',
 'dataset|nested|yx': "list(raise builtins.ImportError: chunk manager 'dask' is not available. "
                      "Please make sure 'dask' is installed and importable., builtins.str:'None', "
                      'builtins.bool:True)',
 'tree|nested|yx': "list(raise builtins.ImportError: chunk manager 'dask' is not available. Please "
                   "make sure 'dask' is installed and importable., builtins.str:'None', "
                   'builtins.bool:True)',
 'dataset-recorded|nested|yx': "list(dict{builtins.str:'type': builtins.str:'Dataset', "
                               "builtins.str:'sizes': dict{builtins.str:'x': builtins.int:3}, "
                               "builtins.str:'data_vars': dict{builtins.str:'c': "
                               "dict{builtins.str:'dims': tuple(builtins.str:'x'), "
                               "builtins.str:'dtype': builtins.str:'int8', builtins.str:'attrs': "
                               "dict{builtins.str:'a': builtins.int:1}, builtins.str:'encoding': "
                               "dict{}, builtins.str:'data-type': builtins.str:'ndarray', "
                               "builtins.str:'values': ndarray[|i1|(3,)|010203]}}, "
                               "builtins.str:'coords': dict{}, builtins.str:'attrs': "
                               'dict{builtins.str:\'chunked_with\': builtins.str:"(({\'x\': -1},), '
                               '{})"}, builtins.str:\'encoding\': dict{}}, '
                               'builtins.str:"[([\'c\'], ({\'x\': -1},), {})]", '
                               'builtins.bool:True)',
 'tree-recorded|nested|yx': "list(dict{builtins.str:'type': builtins.str:'DataTree', "
                            "builtins.str:'name': builtins.NoneType:None, builtins.str:'paths': "
                            "list(builtins.str:'/', builtins.str:'/d'), builtins.str:'nodes': "
                            "dict{builtins.str:'/': dict{builtins.str:'type': "
                            "builtins.str:'Dataset', builtins.str:'sizes': dict{builtins.str:'x': "
                            "builtins.int:3}, builtins.str:'data_vars': dict{builtins.str:'c': "
                            "dict{builtins.str:'dims': tuple(builtins.str:'x'), "
                            "builtins.str:'dtype': builtins.str:'int8', builtins.str:'attrs': "
                            "dict{builtins.str:'a': builtins.int:1}, builtins.str:'encoding': "
                            "dict{}, builtins.str:'data-type': builtins.str:'ndarray', "
                            "builtins.str:'values': ndarray[|i1|(3,)|010203]}}, "
                            "builtins.str:'coords': dict{}, builtins.str:'attrs': "
                            'dict{builtins.str:\'chunked_with\': builtins.str:"(({\'x\': -1},), '
                            '{})"}, builtins.str:\'encoding\': dict{}}, builtins.str:\'/d\': '
                            "dict{builtins.str:'type': builtins.str:'Dataset', "
                            "builtins.str:'sizes': dict{builtins.str:'x': builtins.int:3, "
                            "builtins.str:'y': builtins.int:4}, builtins.str:'data_vars': "
                            "dict{builtins.str:'e': dict{builtins.str:'dims': "
                            "tuple(builtins.str:'x', builtins.str:'y'), builtins.str:'dtype': "
                            "builtins.str:'int64', builtins.str:'attrs': dict{builtins.str:'b': "
                            "builtins.str:'abc'}, builtins.str:'encoding': dict{}, "
                            "builtins.str:'data-type': builtins.str:'ndarray', "
                            "builtins.str:'values': ndarray[<i8|(3, "
                            '4)|00000000000000000100000000000000020000000000000003000000000000000400000000000000050000000000000006000000000000000700000000000000080000000000000009000000000000000a000000000000000b00000000000000]}}, '
                            "builtins.str:'coords': dict{}, builtins.str:'attrs': "
                            'dict{builtins.str:\'chunked_with\': builtins.str:"(({\'y\': 2, \'x\': '
                            '-1},), {})"}, builtins.str:\'encoding\': dict{}}}}, '
                            'builtins.str:"[([\'c\'], ({\'x\': -1},), {}), ([\'c\'], ({\'x\': '
                            '-1},), {}), ([\'e\'], ({\'y\': 2, \'x\': -1},), {})]", '
                            'builtins.bool:True)',
 'dataset|nested|unknown': "list(raise builtins.ImportError: chunk manager 'dask' is not "
                           "available. Please make sure 'dask' is installed and importable., "
                           "builtins.str:'None', builtins.bool:True)",
 'tree|nested|unknown': "list(raise builtins.ImportError: chunk manager 'dask' is not available. "
                        "Please make sure 'dask' is installed and importable., "
                        "builtins.str:'None', builtins.bool:True)",
 'dataset-recorded|nested|unknown': "list(dict{builtins.str:'type': builtins.str:'Dataset', "
                                    "builtins.str:'sizes': dict{builtins.str:'x': builtins.int:3}, "
                                    "builtins.str:'data_vars': dict{builtins.str:'c': "
                                    "dict{builtins.str:'dims': tuple(builtins.str:'x'), "
                                    "builtins.str:'dtype': builtins.str:'int8', "
                                    "builtins.str:'attrs': dict{builtins.str:'a': builtins.int:1}, "
                                    "builtins.str:'encoding': dict{}, builtins.str:'data-type': "
                                    "builtins.str:'ndarray', builtins.str:'values': "
                                    "ndarray[|i1|(3,)|010203]}}, builtins.str:'coords': dict{}, "
                                    "builtins.str:'attrs': dict{builtins.str:'chunked_with': "
                                    "builtins.str:'(({},), {})'}, builtins.str:'encoding': "
                                    'dict{}}, builtins.str:"[([\'c\'], ({},), {})]", '
                                    'builtins.bool:True)',
 'tree-recorded|nested|unknown': "list(dict{builtins.str:'type': builtins.str:'DataTree', "
                                 "builtins.str:'name': builtins.NoneType:None, "
                                 "builtins.str:'paths': list(builtins.str:'/', builtins.str:'/d'), "
                                 "builtins.str:'nodes': dict{builtins.str:'/': "
                                 "dict{builtins.str:'type': builtins.str:'Dataset', "
                                 "builtins.str:'sizes': dict{builtins.str:'x': builtins.int:3}, "
                                 "builtins.str:'data_vars': dict{builtins.str:'c': "
                                 "dict{builtins.str:'dims': tuple(builtins.str:'x'), "
                                 "builtins.str:'dtype': builtins.str:'int8', builtins.str:'attrs': "
                                 "dict{builtins.str:'a': builtins.int:1}, builtins.str:'encoding': "
                                 "dict{}, builtins.str:'data-type': builtins.str:'ndarray', "
                                 "builtins.str:'values': ndarray[|i1|(3,)|010203]}}, "
                                 "builtins.str:'coords': dict{}, builtins.str:'attrs': "
                                 "dict{builtins.str:'chunked_with': builtins.str:'(({},), {})'}, "
                                 "builtins.str:'encoding': dict{}}, builtins.str:'/d': "
                                 "dict{builtins.str:'type': builtins.str:'Dataset', "
                                 "builtins.str:'sizes': dict{builtins.str:'x': builtins.int:3, "
                                 "builtins.str:'y': builtins.int:4}, builtins.str:'data_vars': "
                                 "dict{builtins.str:'e': dict{builtins.str:'dims': "
                                 "tuple(builtins.str:'x', builtins.str:'y'), builtins.str:'dtype': "
                                 "builtins.str:'int64', builtins.str:'attrs': "
                                 "dict{builtins.str:'b': builtins.str:'abc'}, "
                                 "builtins.str:'encoding': dict{}, builtins.str:'data-type': "
                                 "builtins.str:'ndarray', builtins.str:'values': ndarray[<i8|(3, "
                                 '4)|00000000000000000100000000000000020000000000000003000000000000000400000000000000050000000000000006000000000000000700000000000000080000000000000009000000000000000a000000000000000b00000000000000]}}, '
                                 "builtins.str:'coords': dict{}, builtins.str:'attrs': "
                                 "dict{builtins.str:'chunked_with': builtins.str:'(({},), {})'}, "
                                 'builtins.str:\'encoding\': dict{}}}}, builtins.str:"[([\'c\'], '
                                 '({},), {}), ([\'c\'], ({},), {}), ([\'e\'], ({},), {})]", '
                                 'builtins.bool:True)',
 'dataset|nested|mixed': "list(raise builtins.ImportError: chunk manager 'dask' is not available. "
                         "Please make sure 'dask' is installed and importable., "
                         "builtins.str:'None', builtins.bool:True)",
 'tree|nested|mixed': "list(raise builtins.ImportError: chunk manager 'dask' is not available. "
                      "Please make sure 'dask' is installed and importable., builtins.str:'None', "
                      'builtins.bool:True)',
 'dataset-recorded|nested|mixed': "list(dict{builtins.str:'type': builtins.str:'Dataset', "
                                  "builtins.str:'sizes': dict{builtins.str:'x': builtins.int:3}, "
                                  "builtins.str:'data_vars': dict{builtins.str:'c': "
                                  "dict{builtins.str:'dims': tuple(builtins.str:'x'), "
                                  "builtins.str:'dtype': builtins.str:'int8', "
                                  "builtins.str:'attrs': dict{builtins.str:'a': builtins.int:1}, "
                                  "builtins.str:'encoding': dict{}, builtins.str:'data-type': "
                                  "builtins.str:'ndarray', builtins.str:'values': "
                                  "ndarray[|i1|(3,)|010203]}}, builtins.str:'coords': dict{}, "
                                  "builtins.str:'attrs': dict{builtins.str:'chunked_with': "
                                  'builtins.str:"(({\'x\': \'auto\'},), {})"}, '
                                  'builtins.str:\'encoding\': dict{}}, builtins.str:"[([\'c\'], '
                                  '({\'x\': \'auto\'},), {})]", builtins.bool:True)',
 'tree-recorded|nested|mixed': "list(dict{builtins.str:'type': builtins.str:'DataTree', "
                               "builtins.str:'name': builtins.NoneType:None, builtins.str:'paths': "
                               "list(builtins.str:'/', builtins.str:'/d'), builtins.str:'nodes': "
                               "dict{builtins.str:'/': dict{builtins.str:'type': "
                               "builtins.str:'Dataset', builtins.str:'sizes': "
                               "dict{builtins.str:'x': builtins.int:3}, builtins.str:'data_vars': "
                               "dict{builtins.str:'c': dict{builtins.str:'dims': "
                               "tuple(builtins.str:'x'), builtins.str:'dtype': "
                               "builtins.str:'int8', builtins.str:'attrs': dict{builtins.str:'a': "
                               "builtins.int:1}, builtins.str:'encoding': dict{}, "
                               "builtins.str:'data-type': builtins.str:'ndarray', "
                               "builtins.str:'values': ndarray[|i1|(3,)|010203]}}, "
                               "builtins.str:'coords': dict{}, builtins.str:'attrs': "
                               'dict{builtins.str:\'chunked_with\': builtins.str:"(({\'x\': '
                               '\'auto\'},), {})"}, builtins.str:\'encoding\': dict{}}, '
                               "builtins.str:'/d': dict{builtins.str:'type': "
                               "builtins.str:'Dataset', builtins.str:'sizes': "
                               "dict{builtins.str:'x': builtins.int:3, builtins.str:'y': "
                               "builtins.int:4}, builtins.str:'data_vars': dict{builtins.str:'e': "
                               "dict{builtins.str:'dims': tuple(builtins.str:'x', "
                               "builtins.str:'y'), builtins.str:'dtype': builtins.str:'int64', "
                               "builtins.str:'attrs': dict{builtins.str:'b': builtins.str:'abc'}, "
                               "builtins.str:'encoding': dict{}, builtins.str:'data-type': "
                               "builtins.str:'ndarray', builtins.str:'values': ndarray[<i8|(3, "
                               '4)|00000000000000000100000000000000020000000000000003000000000000000400000000000000050000000000000006000000000000000700000000000000080000000000000009000000000000000a000000000000000b00000000000000]}}, '
                               "builtins.str:'coords': dict{}, builtins.str:'attrs': "
                               'dict{builtins.str:\'chunked_with\': builtins.str:"(({\'x\': '
                               '\'auto\'},), {})"}, builtins.str:\'encoding\': dict{}}}}, '
                               'builtins.str:"[([\'c\'], ({\'x\': \'auto\'},), {}), ([\'c\'], '
                               '({\'x\': \'auto\'},), {}), ([\'e\'], ({\'x\': \'auto\'},), {})]", '
                               'builtins.bool:True)',
 'dataset|nested|int': "list(raise builtins.AttributeError: 'int' object has no attribute 'items', "
                       "builtins.str:'None', builtins.bool:True)",
 'tree|nested|int': "list(raise builtins.AttributeError: 'int' object has no attribute 'items', "
                    "builtins.str:'None', builtins.bool:True)",
 'dataset-recorded|nested|int': "list(raise builtins.AttributeError: 'int' object has no attribute "
                                "'items', builtins.str:'[]', builtins.bool:True)",
 'tree-recorded|nested|int': "list(raise builtins.AttributeError: 'int' object has no attribute "
                             "'items', builtins.str:'[]', builtins.bool:True)",
 'dataset|nested|str': "list(raise builtins.AttributeError: 'str' object has no attribute 'items', "
                       "builtins.str:'None', builtins.bool:True)",
 'tree|nested|str': "list(raise builtins.AttributeError: 'str' object has no attribute 'items', "
                    "builtins.str:'None', builtins.bool:True)",
 'dataset-recorded|nested|str': "list(raise builtins.AttributeError: 'str' object has no attribute "
                                "'items', builtins.str:'[]', builtins.bool:True)",
 'tree-recorded|nested|str': "list(raise builtins.AttributeError: 'str' object has no attribute "
                             "'items', builtins.str:'[]', builtins.bool:True)",
 'dataset|nested|list': "list(raise builtins.AttributeError: 'list' object has no attribute "
                        "'items', builtins.str:'None', builtins.bool:True)",
 'tree|nested|list': "list(raise builtins.AttributeError: 'list' object has no attribute 'items', "
                     "builtins.str:'None', builtins.bool:True)",
 'dataset-recorded|nested|list': "list(raise builtins.AttributeError: 'list' object has no "
                                 "attribute 'items', builtins.str:'[]', builtins.bool:True)",
 'tree-recorded|nested|list': "list(raise builtins.AttributeError: 'list' object has no attribute "
                              "'items', builtins.str:'[]', builtins.bool:True)",
 'dataset|nested|tuple-keys': "list(raise builtins.ImportError: chunk manager 'dask' is not "
                              "available. Please make sure 'dask' is installed and importable., "
                              "builtins.str:'None', builtins.bool:True)",
 'tree|nested|tuple-keys': "list(raise builtins.ImportError: chunk manager 'dask' is not "
                           "available. Please make sure 'dask' is installed and importable., "
                           "builtins.str:'None', builtins.bool:True)",
 'dataset-recorded|nested|tuple-keys': "list(dict{builtins.str:'type': builtins.str:'Dataset', "
                                       "builtins.str:'sizes': dict{builtins.str:'x': "
                                       "builtins.int:3}, builtins.str:'data_vars': "
                                       "dict{builtins.str:'c': dict{builtins.str:'dims': "
                                       "tuple(builtins.str:'x'), builtins.str:'dtype': "
                                       "builtins.str:'int8', builtins.str:'attrs': "
                                       "dict{builtins.str:'a': builtins.int:1}, "
                                       "builtins.str:'encoding': dict{}, builtins.str:'data-type': "
                                       "builtins.str:'ndarray', builtins.str:'values': "
                                       "ndarray[|i1|(3,)|010203]}}, builtins.str:'coords': dict{}, "
                                       "builtins.str:'attrs': dict{builtins.str:'chunked_with': "
                                       "builtins.str:'(({},), {})'}, builtins.str:'encoding': "
                                       'dict{}}, builtins.str:"[([\'c\'], ({},), {})]", '
                                       'builtins.bool:True)',
 'tree-recorded|nested|tuple-keys': "list(dict{builtins.str:'type': builtins.str:'DataTree', "
                                    "builtins.str:'name': builtins.NoneType:None, "
                                    "builtins.str:'paths': list(builtins.str:'/', "
                                    "builtins.str:'/d'), builtins.str:'nodes': "
                                    "dict{builtins.str:'/': dict{builtins.str:'type': "
                                    "builtins.str:'Dataset', builtins.str:'sizes': "
                                    "dict{builtins.str:'x': builtins.int:3}, "
                                    "builtins.str:'data_vars': dict{builtins.str:'c': "
                                    "dict{builtins.str:'dims': tuple(builtins.str:'x'), "
                                    "builtins.str:'dtype': builtins.str:'int8', "
                                    "builtins.str:'attrs': dict{builtins.str:'a': builtins.int:1}, "
                                    "builtins.str:'encoding': dict{}, builtins.str:'data-type': "
                                    "builtins.str:'ndarray', builtins.str:'values': "
                                    "ndarray[|i1|(3,)|010203]}}, builtins.str:'coords': dict{}, "
                                    "builtins.str:'attrs': dict{builtins.str:'chunked_with': "
                                    "builtins.str:'(({},), {})'}, builtins.str:'encoding': "
                                    "dict{}}, builtins.str:'/d': dict{builtins.str:'type': "
                                    "builtins.str:'Dataset', builtins.str:'sizes': "
                                    "dict{builtins.str:'x': builtins.int:3, builtins.str:'y': "
                                    "builtins.int:4}, builtins.str:'data_vars': "
                                    "dict{builtins.str:'e': dict{builtins.str:'dims': "
                                    "tuple(builtins.str:'x', builtins.str:'y'), "
                                    "builtins.str:'dtype': builtins.str:'int64', "
                                    "builtins.str:'attrs': dict{builtins.str:'b': "
                                    "builtins.str:'abc'}, builtins.str:'encoding': dict{}, "
                                    "builtins.str:'data-type': builtins.str:'ndarray', "
                                    "builtins.str:'values': ndarray[<i8|(3, "
                                    '4)|00000000000000000100000000000000020000000000000003000000000000000400000000000000050000000000000006000000000000000700000000000000080000000000000009000000000000000a000000000000000b00000000000000]}}, '
                                    "builtins.str:'coords': dict{}, builtins.str:'attrs': "
                                    "dict{builtins.str:'chunked_with': builtins.str:'(({},), "
                                    "{})'}, builtins.str:'encoding': dict{}}}}, "
                                    'builtins.str:"[([\'c\'], ({},), {}), ([\'c\'], ({},), {}), '
                                    '([\'e\'], ({},), {})]", builtins.bool:True)',
 'dataset|nested-coords|none': "list(dict{builtins.str:'type': builtins.str:'Dataset', "
                               "builtins.str:'sizes': dict{builtins.str:'x': builtins.int:3}, "
                               "builtins.str:'data_vars': dict{}, builtins.str:'coords': "
                               "dict{builtins.str:'c': dict{builtins.str:'dims': "
                               "tuple(builtins.str:'x'), builtins.str:'dtype': "
                               "builtins.str:'int8', builtins.str:'attrs': dict{builtins.str:'a': "
                               "builtins.int:1}, builtins.str:'encoding': dict{}, "
                               "builtins.str:'data-type': builtins.str:'ndarray', "
                               "builtins.str:'values': ndarray[|i1|(3,)|010203]}}, "
                               "builtins.str:'attrs': dict{builtins.str:'level': builtins.int:0}, "
                               "builtins.str:'encoding': dict{}}, builtins.str:'None', "
                               'builtins.bool:True)',
 'tree|nested-coords|none': "list(dict{builtins.str:'type': builtins.str:'DataTree', "
                            "builtins.str:'name': builtins.NoneType:None, builtins.str:'paths': "
                            "list(builtins.str:'/', builtins.str:'/sub', builtins.str:'/other'), "
                            "builtins.str:'nodes': dict{builtins.str:'/': "
                            "dict{builtins.str:'type': builtins.str:'Dataset', "
                            "builtins.str:'sizes': dict{builtins.str:'x': builtins.int:3}, "
                            "builtins.str:'data_vars': dict{}, builtins.str:'coords': "
                            "dict{builtins.str:'c': dict{builtins.str:'dims': "
                            "tuple(builtins.str:'x'), builtins.str:'dtype': builtins.str:'int8', "
                            "builtins.str:'attrs': dict{builtins.str:'a': builtins.int:1}, "
                            "builtins.str:'encoding': dict{}, builtins.str:'data-type': "
                            "builtins.str:'ndarray', builtins.str:'values': "
                            "ndarray[|i1|(3,)|010203]}}, builtins.str:'attrs': "
                            "dict{builtins.str:'level': builtins.int:0}, builtins.str:'encoding': "
                            "dict{}}, builtins.str:'/sub': dict{builtins.str:'type': "
                            "builtins.str:'Dataset', builtins.str:'sizes': dict{builtins.str:'x': "
                            "builtins.int:3, builtins.str:'y': builtins.int:4}, "
                            "builtins.str:'data_vars': dict{builtins.str:'e': "
                            "dict{builtins.str:'dims': tuple(builtins.str:'x', builtins.str:'y'), "
                            "builtins.str:'dtype': builtins.str:'int64', builtins.str:'attrs': "
                            "dict{builtins.str:'b': builtins.str:'abc'}, builtins.str:'encoding': "
                            "dict{}, builtins.str:'data-type': builtins.str:'ndarray', "
                            "builtins.str:'values': ndarray[<i8|(3, "
                            '4)|00000000000000000100000000000000020000000000000003000000000000000400000000000000050000000000000006000000000000000700000000000000080000000000000009000000000000000a000000000000000b00000000000000]}}, '
                            "builtins.str:'coords': dict{builtins.str:'f': "
                            "dict{builtins.str:'dims': tuple(builtins.str:'y'), "
                            "builtins.str:'dtype': builtins.str:'float64', builtins.str:'attrs': "
                            "dict{}, builtins.str:'encoding': dict{}, builtins.str:'data-type': "
                            "builtins.str:'ndarray', builtins.str:'values': "
                            'ndarray[<f8|(4,)|000000000000e03f000000000000f83f00000000000004400000000000000c40]}}, '
                            "builtins.str:'attrs': dict{builtins.str:'level': builtins.int:1}, "
                            "builtins.str:'encoding': dict{}}, builtins.str:'/other': "
                            "dict{builtins.str:'type': builtins.str:'Dataset', "
                            "builtins.str:'sizes': dict{builtins.str:'t': builtins.int:2}, "
                            "builtins.str:'data_vars': dict{}, builtins.str:'coords': "
                            "dict{builtins.str:'t': dict{builtins.str:'dims': "
                            "tuple(builtins.str:'t'), builtins.str:'dtype': "
                            "builtins.str:'datetime64[ns]', builtins.str:'attrs': "
                            "dict{builtins.str:'axis': builtins.str:'T'}, builtins.str:'encoding': "
                            "dict{}, builtins.str:'data-type': "
                            "builtins.str:'PandasIndexingAdapter', builtins.str:'values': "
                            'ndarray[<M8[ns]|(2,)|00008ab9359ae5150000d94acae8e515]}}, '
                            "builtins.str:'attrs': dict{}, builtins.str:'encoding': dict{}}}}, "
                            "builtins.str:'None', builtins.bool:True)",
 'dataset|nested-coords|empty': "list(raise builtins.ImportError: chunk manager 'dask' is not "
                                "available. Please make sure 'dask' is installed and importable., "
                                "builtins.str:'None', builtins.bool:True)",
 'tree|nested-coords|empty': "list(raise builtins.ImportError: chunk manager 'dask' is not "
                             "available. Please make sure 'dask' is installed and importable., "
                             "builtins.str:'None', builtins.bool:True)",
 'dataset-recorded|nested-coords|empty': "list(dict{builtins.str:'type': builtins.str:'Dataset', "
                                         "builtins.str:'sizes': dict{builtins.str:'x': "
                                         "builtins.int:3}, builtins.str:'data_vars': dict{}, "
                                         "builtins.str:'coords': dict{builtins.str:'c': "
                                         "dict{builtins.str:'dims': tuple(builtins.str:'x'), "
                                         "builtins.str:'dtype': builtins.str:'int8', "
                                         "builtins.str:'attrs': dict{builtins.str:'a': "
                                         "builtins.int:1}, builtins.str:'encoding': dict{}, "
                                         "builtins.str:'data-type': builtins.str:'ndarray', "
                                         "builtins.str:'values': ndarray[|i1|(3,)|010203]}}, "
                                         "builtins.str:'attrs': dict{builtins.str:'level': "
                                         "builtins.int:0, builtins.str:'chunked_with': "
                                         "builtins.str:'(({},), {})'}, builtins.str:'encoding': "
                                         'dict{}}, builtins.str:"[([\'c\'], ({},), {})]", '
                                         'builtins.bool:True)',
 'tree-recorded|nested-coords|empty': "list(dict{builtins.str:'type': builtins.str:'DataTree', "
                                      "builtins.str:'name': builtins.NoneType:None, "
                                      "builtins.str:'paths': list(builtins.str:'/', "
                                      "builtins.str:'/sub', builtins.str:'/other'), "
                                      "builtins.str:'nodes': dict{builtins.str:'/': "
                                      "dict{builtins.str:'type': builtins.str:'Dataset', "
                                      "builtins.str:'sizes': dict{builtins.str:'x': "
                                      "builtins.int:3}, builtins.str:'data_vars': dict{}, "
                                      "builtins.str:'coords': dict{builtins.str:'c': "
                                      "dict{builtins.str:'dims': tuple(builtins.str:'x'), "
                                      "builtins.str:'dtype': builtins.str:'int8', "
                                      "builtins.str:'attrs': dict{builtins.str:'a': "
                                      "builtins.int:1}, builtins.str:'encoding': dict{}, "
                                      "builtins.str:'data-type': builtins.str:'ndarray', "
                                      "builtins.str:'values': ndarray[|i1|(3,)|010203]}}, "
                                      "builtins.str:'attrs': dict{builtins.str:'level': "
                                      "builtins.int:0, builtins.str:'chunked_with': "
                                      "builtins.str:'(({},), {})'}, builtins.str:'encoding': "
                                      "dict{}}, builtins.str:'/sub': dict{builtins.str:'type': "
                                      "builtins.str:'Dataset', builtins.str:'sizes': "
                                      "dict{builtins.str:'x': builtins.int:3, builtins.str:'y': "
                                      "builtins.int:4}, builtins.str:'data_vars': "
                                      "dict{builtins.str:'e': dict{builtins.str:'dims': "
                                      "tuple(builtins.str:'x', builtins.str:'y'), "
                                      "builtins.str:'dtype': builtins.str:'int64', "
                                      "builtins.str:'attrs': dict{builtins.str:'b': "
                                      "builtins.str:'abc'}, builtins.str:'encoding': dict{}, "
                                      "builtins.str:'data-type': builtins.str:'ndarray', "
                                      "builtins.str:'values': ndarray[<i8|(3, "
                                      '4)|00000000000000000100000000000000020000000000000003000000000000000400000000000000050000000000000006000000000000000700000000000000080000000000000009000000000000000a000000000000000b00000000000000]}}, '
                                      "builtins.str:'coords': dict{builtins.str:'f': "
                                      "dict{builtins.str:'dims': tuple(builtins.str:'y'), "
                                      "builtins.str:'dtype': builtins.str:'float64', "
                                      "builtins.str:'attrs': dict{}, builtins.str:'encoding': "
                                      "dict{}, builtins.str:'data-type': builtins.str:'ndarray', "
                                      "builtins.str:'values': "
                                      'ndarray[<f8|(4,)|000000000000e03f000000000000f83f00000000000004400000000000000c40]}}, '
                                      "builtins.str:'attrs': dict{builtins.str:'level': "
                                      "builtins.int:1, builtins.str:'chunked_with': "
                                      "builtins.str:'(({},), {})'}, builtins.str:'encoding': "
                                      "dict{}}, builtins.str:'/other': dict{builtins.str:'type': "
                                      "builtins.str:'Dataset', builtins.str:'sizes': "
                                      "dict{builtins.str:'t': builtins.int:2}, "
                                      "builtins.str:'data_vars': dict{}, builtins.str:'coords': "
                                      "dict{builtins.str:'t': dict{builtins.str:'dims': "
                                      "tuple(builtins.str:'t'), builtins.str:'dtype': "
                                      "builtins.str:'datetime64[ns]', builtins.str:'attrs': "
                                      "dict{builtins.str:'axis': builtins.str:'T'}, "
                                      "builtins.str:'encoding': dict{}, builtins.str:'data-type': "
                                      "builtins.str:'PandasIndexingAdapter', "
                                      "builtins.str:'values': "
                                      'ndarray[<M8[ns]|(2,)|00008ab9359ae5150000d94acae8e515]}}, '
                                      "builtins.str:'attrs': dict{builtins.str:'chunked_with': "
                                      "builtins.str:'(({},), {})'}, builtins.str:'encoding': "
                                      'dict{}}}}, builtins.str:"[([\'c\'], ({},), {}), ([\'c\'], '
                                      "({},), {}), (['e', 'f'], ({},), {}), (['t'], ({},), "
                                      '{})]", builtins.bool:True)',
 'dataset|nested-coords|x': "list(raise builtins.ImportError: chunk manager 'dask' is not "
                            "available. Please make sure 'dask' is installed and importable., "
                            "builtins.str:'None', builtins.bool:True)",
 'tree|nested-coords|x': "list(raise builtins.ImportError: chunk manager 'dask' is not available. "
                         "Please make sure 'dask' is installed and importable., "
                         "builtins.str:'None', builtins.bool:True)",
 'dataset-recorded|nested-coords|x': "list(dict{builtins.str:'type': builtins.str:'Dataset', "
                                     "builtins.str:'sizes': dict{builtins.str:'x': "
                                     "builtins.int:3}, builtins.str:'data_vars': dict{}, "
                                     "builtins.str:'coords': dict{builtins.str:'c': "
                                     "dict{builtins.str:'dims': tuple(builtins.str:'x'), "
                                     "builtins.str:'dtype': builtins.str:'int8', "
                                     "builtins.str:'attrs': dict{builtins.str:'a': "
                                     "builtins.int:1}, builtins.str:'encoding': dict{}, "
                                     "builtins.str:'data-type': builtins.str:'ndarray', "
                                     "builtins.str:'values': ndarray[|i1|(3,)|010203]}}, "
                                     "builtins.str:'attrs': dict{builtins.str:'level': "
                                     "builtins.int:0, builtins.str:'chunked_with': "
                                     'builtins.str:"(({\'x\': 1},), {})"}, '
                                     'builtins.str:\'encoding\': dict{}}, builtins.str:"[([\'c\'], '
                                     '({\'x\': 1},), {})]", builtins.bool:True)',
 'tree-recorded|nested-coords|x': "list(dict{builtins.str:'type': builtins.str:'DataTree', "
                                  "builtins.str:'name': builtins.NoneType:None, "
                                  "builtins.str:'paths': list(builtins.str:'/', "
                                  "builtins.str:'/sub', builtins.str:'/other'), "
                                  "builtins.str:'nodes': dict{builtins.str:'/': "
                                  "dict{builtins.str:'type': builtins.str:'Dataset', "
                                  "builtins.str:'sizes': dict{builtins.str:'x': builtins.int:3}, "
                                  "builtins.str:'data_vars': dict{}, builtins.str:'coords': "
                                  "dict{builtins.str:'c': dict{builtins.str:'dims': "
                                  "tuple(builtins.str:'x'), builtins.str:'dtype': "
                                  "builtins.str:'int8', builtins.str:'attrs': "
                                  "dict{builtins.str:'a': builtins.int:1}, "
                                  "builtins.str:'encoding': dict{}, builtins.str:'data-type': "
                                  "builtins.str:'ndarray', builtins.str:'values': "
                                  "ndarray[|i1|(3,)|010203]}}, builtins.str:'attrs': "
                                  "dict{builtins.str:'level': builtins.int:0, "
                                  'builtins.str:\'chunked_with\': builtins.str:"(({\'x\': 1},), '
                                  '{})"}, builtins.str:\'encoding\': dict{}}, '
                                  "builtins.str:'/sub': dict{builtins.str:'type': "
                                  "builtins.str:'Dataset', builtins.str:'sizes': "
                                  "dict{builtins.str:'x': builtins.int:3, builtins.str:'y': "
                                  "builtins.int:4}, builtins.str:'data_vars': "
                                  "dict{builtins.str:'e': dict{builtins.str:'dims': "
                                  "tuple(builtins.str:'x', builtins.str:'y'), "
                                  "builtins.str:'dtype': builtins.str:'int64', "
                                  "builtins.str:'attrs': dict{builtins.str:'b': "
                                  "builtins.str:'abc'}, builtins.str:'encoding': dict{}, "
                                  "builtins.str:'data-type': builtins.str:'ndarray', "
                                  "builtins.str:'values': ndarray[<i8|(3, "
                                  '4)|00000000000000000100000000000000020000000000000003000000000000000400000000000000050000000000000006000000000000000700000000000000080000000000000009000000000000000a000000000000000b00000000000000]}}, '
                                  "builtins.str:'coords': dict{builtins.str:'f': "
                                  "dict{builtins.str:'dims': tuple(builtins.str:'y'), "
                                  "builtins.str:'dtype': builtins.str:'float64', "
                                  "builtins.str:'attrs': dict{}, builtins.str:'encoding': dict{}, "
                                  "builtins.str:'data-type': builtins.str:'ndarray', "
                                  "builtins.str:'values': "
                                  'ndarray[<f8|(4,)|000000000000e03f000000000000f83f00000000000004400000000000000c40]}}, '
                                  "builtins.str:'attrs': dict{builtins.str:'level': "
                                  "builtins.int:1, builtins.str:'chunked_with': "
                                  'builtins.str:"(({\'x\': 1},), {})"}, builtins.str:\'encoding\': '
                                  "dict{}}, builtins.str:'/other': dict{builtins.str:'type': "
                                  "builtins.str:'Dataset', builtins.str:'sizes': "
                                  "dict{builtins.str:'t': builtins.int:2}, "
                                  "builtins.str:'data_vars': dict{}, builtins.str:'coords': "
                                  "dict{builtins.str:'t': dict{builtins.str:'dims': "
                                  "tuple(builtins.str:'t'), builtins.str:'dtype': "
                                  "builtins.str:'datetime64[ns]', builtins.str:'attrs': "
                                  "dict{builtins.str:'axis': builtins.str:'T'}, "
                                  "builtins.str:'encoding': dict{}, builtins.str:'data-type': "
                                  "builtins.str:'PandasIndexingAdapter', builtins.str:'values': "
                                  'ndarray[<M8[ns]|(2,)|00008ab9359ae5150000d94acae8e515]}}, '
                                  "builtins.str:'attrs': dict{builtins.str:'chunked_with': "
                                  "builtins.str:'(({},), {})'}, builtins.str:'encoding': "
                                  'dict{}}}}, builtins.str:"[([\'c\'], ({\'x\': 1},), {}), '
                                  "(['c'], ({'x': 1},), {}), (['e', 'f'], ({'x': 1},), {}), "
                                  '([\'t\'], ({},), {})]", builtins.bool:True)',
 'dataset|nested-coords|xy': "list(raise builtins.ImportError: chunk manager 'dask' is not "
                             "available. Please make sure 'dask' is installed and importable., "
                             "builtins.str:'None', builtins.bool:True)",
 'tree|nested-coords|xy': "list(raise builtins.ImportError: chunk manager 'dask' is not available. "
                          "Please make sure 'dask' is installed and importable., "
                          "builtins.str:'None', builtins.bool:True)",
 'dataset-recorded|nested-coords|xy': "list(dict{builtins.str:'type': builtins.str:'Dataset', "
                                      "builtins.str:'sizes': dict{builtins.str:'x': "
                                      "builtins.int:3}, builtins.str:'data_vars': dict{}, "
                                      "builtins.str:'coords': dict{builtins.str:'c': "
                                      "dict{builtins.str:'dims': tuple(builtins.str:'x'), "
                                      "builtins.str:'dtype': builtins.str:'int8', "
                                      "builtins.str:'attrs': dict{builtins.str:'a': "
                                      "builtins.int:1}, builtins.str:'encoding': dict{}, "
                                      "builtins.str:'data-type': builtins.str:'ndarray', "
                                      "builtins.str:'values': ndarray[|i1|(3,)|010203]}}, "
                                      "builtins.str:'attrs': dict{builtins.str:'level': "
                                      "builtins.int:0, builtins.str:'chunked_with': "
                                      'builtins.str:"(({\'x\': 1},), {})"}, '
                                      "builtins.str:'encoding': dict{}}, "
                                      'builtins.str:"[([\'c\'], ({\'x\': 1},), {})]", '
                                      'builtins.bool:True)',
 'tree-recorded|nested-coords|xy': "list(dict{builtins.str:'type': builtins.str:'DataTree', "
                                   "builtins.str:'name': builtins.NoneType:None, "
                                   "builtins.str:'paths': list(builtins.str:'/', "
                                   "builtins.str:'/sub', builtins.str:'/other'), "
                                   "builtins.str:'nodes': dict{builtins.str:'/': "
                                   "dict{builtins.str:'type': builtins.str:'Dataset', "
                                   "builtins.str:'sizes': dict{builtins.str:'x': builtins.int:3}, "
                                   "builtins.str:'data_vars': dict{}, builtins.str:'coords': "
                                   "dict{builtins.str:'c': dict{builtins.str:'dims': "
                                   "tuple(builtins.str:'x'), builtins.str:'dtype': "
                                   "builtins.str:'int8', builtins.str:'attrs': "
                                   "dict{builtins.str:'a': builtins.int:1}, "
                                   "builtins.str:'encoding': dict{}, builtins.str:'data-type': "
                                   "builtins.str:'ndarray', builtins.str:'values': "
                                   "ndarray[|i1|(3,)|010203]}}, builtins.str:'attrs': "
                                   "dict{builtins.str:'level': builtins.int:0, "
                                   'builtins.str:\'chunked_with\': builtins.str:"(({\'x\': 1},), '
                                   '{})"}, builtins.str:\'encoding\': dict{}}, '
                                   "builtins.str:'/sub': dict{builtins.str:'type': "
                                   "builtins.str:'Dataset', builtins.str:'sizes': "
                                   "dict{builtins.str:'x': builtins.int:3, builtins.str:'y': "
                                   "builtins.int:4}, builtins.str:'data_vars': "
                                   "dict{builtins.str:'e': dict{builtins.str:'dims': "
                                   "tuple(builtins.str:'x', builtins.str:'y'), "
                                   "builtins.str:'dtype': builtins.str:'int64', "
                                   "builtins.str:'attrs': dict{builtins.str:'b': "
                                   "builtins.str:'abc'}, builtins.str:'encoding': dict{}, "
                                   "builtins.str:'data-type': builtins.str:'ndarray', "
                                   "builtins.str:'values': ndarray[<i8|(3, "
                                   '4)|00000000000000000100000000000000020000000000000003000000000000000400000000000000050000000000000006000000000000000700000000000000080000000000000009000000000000000a000000000000000b00000000000000]}}, '
                                   "builtins.str:'coords': dict{builtins.str:'f': "
                                   "dict{builtins.str:'dims': tuple(builtins.str:'y'), "
                                   "builtins.str:'dtype': builtins.str:'float64', "
                                   "builtins.str:'attrs': dict{}, builtins.str:'encoding': dict{}, "
                                   "builtins.str:'data-type': builtins.str:'ndarray', "
                                   "builtins.str:'values': "
                                   'ndarray[<f8|(4,)|000000000000e03f000000000000f83f00000000000004400000000000000c40]}}, '
                                   "builtins.str:'attrs': dict{builtins.str:'level': "
                                   "builtins.int:1, builtins.str:'chunked_with': "
                                   'builtins.str:"(({\'x\': 1, \'y\': 2},), {})"}, '
                                   "builtins.str:'encoding': dict{}}, builtins.str:'/other': "
                                   "dict{builtins.str:'type': builtins.str:'Dataset', "
                                   "builtins.str:'sizes': dict{builtins.str:'t': builtins.int:2}, "
                                   "builtins.str:'data_vars': dict{}, builtins.str:'coords': "
                                   "dict{builtins.str:'t': dict{builtins.str:'dims': "
                                   "tuple(builtins.str:'t'), builtins.str:'dtype': "
                                   "builtins.str:'datetime64[ns]', builtins.str:'attrs': "
                                   "dict{builtins.str:'axis': builtins.str:'T'}, "
                                   "builtins.str:'encoding': dict{}, builtins.str:'data-type': "
                                   "builtins.str:'PandasIndexingAdapter', builtins.str:'values': "
                                   'ndarray[<M8[ns]|(2,)|00008ab9359ae5150000d94acae8e515]}}, '
                                   "builtins.str:'attrs': dict{builtins.str:'chunked_with': "
                                   "builtins.str:'(({},), {})'}, builtins.str:'encoding': "
                                   'dict{}}}}, builtins.str:"[([\'c\'], ({\'x\': 1},), {}), '
                                   "(['c'], ({'x': 1},), {}), (['e', 'f'], ({'x': 1, 'y': 2},), "
                                   '{}), ([\'t\'], ({},), {})]", builtins.bool:True)',
 'dataset|nested-coords|yx': "list(raise builtins.ImportError: chunk manager 'dask' is not "
                             "available. Please make sure 'dask' is installed and importable., "
                             "builtins.str:'None', builtins.bool:True)",
 'tree|nested-coords|yx': "list(raise builtins.ImportError: chunk manager 'dask' is not available. "
                          "Please make sure 'dask' is installed and importable., "
                          "builtins.str:'None', builtins.bool:True)",
 'dataset-recorded|nested-coords|yx': "list(dict{builtins.str:'type': builtins.str:'Dataset', "
                                      "builtins.str:'sizes': dict{builtins.str:'x': "
                                      "builtins.int:3}, builtins.str:'data_vars': dict{}, "
                                      "builtins.str:'coords': dict{builtins.str:'c': "
                                      "dict{builtins.str:'dims': tuple(builtins.str:'x'), "
                                      "builtins.str:'dtype': builtins.str:'int8', "
                                      "builtins.str:'attrs': dict{builtins.str:'a': "
                                      "builtins.int:1}, builtins.str:'encoding': dict{}, "
                                      "builtins.str:'data-type': builtins.str:'ndarray', "
                                      "builtins.str:'values': ndarray[|i1|(3,)|010203]}}, "
                                      "builtins.str:'attrs': dict{builtins.str:'level': "
                                      "builtins.int:0, builtins.str:'chunked_with': "
                                      'builtins.str:"(({\'x\': -1},), {})"}, '
                                      "builtins.str:'encoding': dict{}}, "
                                      'builtins.str:"[([\'c\'], ({\'x\': -1},), {})]", '
                                      'builtins.bool:True)',
 'tree-recorded|nested-coords|yx': "list(dict{builtins.str:'type': builtins.str:'DataTree', "
                                   "builtins.str:'name': builtins.NoneType:None, "
                                   "builtins.str:'paths': list(builtins.str:'/', "
                                   "builtins.str:'/sub', builtins.str:'/other'), "
                                   "builtins.str:'nodes': dict{builtins.str:'/': "
                                   "dict{builtins.str:'type': builtins.str:'Dataset', "
                                   "builtins.str:'sizes': dict{builtins.str:'x': builtins.int:3}, "
                                   "builtins.str:'data_vars': dict{}, builtins.str:'coords': "
                                   "dict{builtins.str:'c': dict{builtins.str:'dims': "
                                   "tuple(builtins.str:'x'), builtins.str:'dtype': "
                                   "builtins.str:'int8', builtins.str:'attrs': "
                                   "dict{builtins.str:'a': builtins.int:1}, "
                                   "builtins.str:'encoding': dict{}, builtins.str:'data-type': "
                                   "builtins.str:'ndarray', builtins.str:'values': "
                                   "ndarray[|i1|(3,)|010203]}}, builtins.str:'attrs': "
                                   "dict{builtins.str:'level': builtins.int:0, "
                                   'builtins.str:\'chunked_with\': builtins.str:"(({\'x\': -1},), '
                                   '{})"}, builtins.str:\'encoding\': dict{}}, '
                                   "builtins.str:'/sub': dict{builtins.str:'type': "
                                   "builtins.str:'Dataset', builtins.str:'sizes': "
                                   "dict{builtins.str:'x': builtins.int:3, builtins.str:'y': "
                                   "builtins.int:4}, builtins.str:'data_vars': "
                                   "dict{builtins.str:'e': dict{builtins.str:'dims': "
                                   "tuple(builtins.str:'x', builtins.str:'y'), "
                                   "builtins.str:'dtype': builtins.str:'int64', "
                                   "builtins.str:'attrs': dict{builtins.str:'b': "
                                   "builtins.str:'abc'}, builtins.str:'encoding': dict{}, "
                                   "builtins.str:'data-type': builtins.str:'ndarray', "
                                   "builtins.str:'values': ndarray[<i8|(3, "
                                   '4)|00000000000000000100000000000000020000000000000003000000000000000400000000000000050000000000000006000000000000000700000000000000080000000000000009000000000000000a000000000000000b00000000000000]}}, '
                                   "builtins.str:'coords': dict{builtins.str:'f': "
                                   "dict{builtins.str:'dims': tuple(builtins.str:'y'), "
                                   "builtins.str:'dtype': builtins.str:'float64', "
                                   "builtins.str:'attrs': dict{}, builtins.str:'encoding': dict{}, "
                                   "builtins.str:'data-type': builtins.str:'ndarray', "
                                   "builtins.str:'values': "
                                   'ndarray[<f8|(4,)|000000000000e03f000000000000f83f00000000000004400000000000000c40]}}, '
                                   "builtins.str:'attrs': dict{builtins.str:'level': "
                                   "builtins.int:1, builtins.str:'chunked_with': "
                                   'builtins.str:"(({\'y\': 2, \'x\': -1},), {})"}, '
                                   "builtins.str:'encoding': dict{}}, builtins.str:'/other': "
                                   "dict{builtins.str:'type': builtins.str:'Dataset', "
                                   "builtins.str:'sizes': dict{builtins.str:'t': builtins.int:2}, "
                                   "builtins.str:'data_vars': dict{}, builtins.str:'coords': "
                                   "dict{builtins.str:'t': dict{builtins.str:'dims': "
                                   "tuple(builtins.str:'t'), builtins.str:'dtype': "
                                   "builtins.str:'datetime64[ns]', builtins.str:'attrs': "
                                   "dict{builtins.str:'axis': builtins.str:'T'}, "
                                   "builtins.str:'encoding': dict{}, builtins.str:'data-type': "
                                   "builtins.str:'PandasIndexingAdapter', builtins.str:'values': "
                                   'ndarray[<M8[ns]|(2,)|00008ab9359ae5150000d94acae8e515]}}, '
                                   "builtins.str:'attrs': dict{builtins.str:'chunked_with': "
                                   "builtins.str:'(({},), {})'}, builtins.str:'encoding': "
                                   'dict{}}}}, builtins.str:"[([\'c\'], ({\'x\': -1},), {}), '
                                   "(['c'], ({'x': -1},), {}), (['e', 'f'], ({'y': 2, 'x': -1},), "
                                   '{}), ([\'t\'], ({},), {})]", builtins.bool:True)',
 'dataset|nested-coords|unknown': "list(raise builtins.ImportError: chunk manager 'dask' is not "
                                  "available. Please make sure 'dask' is installed and "
                                  "importable., builtins.str:'None', builtins.bool:True)",
 'tree|nested-coords|unknown': "list(raise builtins.ImportError: chunk manager 'dask' is not "
                               "available. Please make sure 'dask' is installed and importable., "
                               "builtins.str:'None', builtins.bool:True)",
 'dataset-recorded|nested-coords|unknown': "list(dict{builtins.str:'type': builtins.str:'Dataset', "
                                           "builtins.str:'sizes': dict{builtins.str:'x': "
                                           "builtins.int:3}, builtins.str:'data_vars': dict{}, "
                                           "builtins.str:'coords': dict{builtins.str:'c': "
                                           "dict{builtins.str:'dims': tuple(builtins.str:'x'), "
                                           "builtins.str:'dtype': builtins.str:'int8', "
                                           "builtins.str:'attrs': dict{builtins.str:'a': "
                                           "builtins.int:1}, builtins.str:'encoding': dict{}, "
                                           "builtins.str:'data-type': builtins.str:'ndarray', "
                                           "builtins.str:'values': ndarray[|i1|(3,)|010203]}}, "
                                           "builtins.str:'attrs': dict{builtins.str:'level': "
                                           "builtins.int:0, builtins.str:'chunked_with': "
                                           "builtins.str:'(({},), {})'}, builtins.str:'encoding': "
                                           'dict{}}, builtins.str:"[([\'c\'], ({},), {})]", '
                                           'builtins.bool:True)',
 'tree-recorded|nested-coords|unknown': "list(dict{builtins.str:'type': builtins.str:'DataTree', "
                                        "builtins.str:'name': builtins.NoneType:None, "
                                        "builtins.str:'paths': list(builtins.str:'/', "
                                        "builtins.str:'/sub', builtins.str:'/other'), "
                                        "builtins.str:'nodes': dict{builtins.str:'/': "
                                        "dict{builtins.str:'type': builtins.str:'Dataset', "
                                        "builtins.str:'sizes': dict{builtins.str:'x': "
                                        "builtins.int:3}, builtins.str:'data_vars': dict{}, "
                                        "builtins.str:'coords': dict{builtins.str:'c': "
                                        "dict{builtins.str:'dims': tuple(builtins.str:'x'), "
                                        "builtins.str:'dtype': builtins.str:'int8', "
                                        "builtins.str:'attrs': dict{builtins.str:'a': "
                                        "builtins.int:1}, builtins.str:'encoding': dict{}, "
                                        "builtins.str:'data-type': builtins.str:'ndarray', "
                                        "builtins.str:'values': ndarray[|i1|(3,)|010203]}}, "
                                        "builtins.str:'attrs': dict{builtins.str:'level': "
                                        "builtins.int:0, builtins.str:'chunked_with': "
                                        "builtins.str:'(({},), {})'}, builtins.str:'encoding': "
                                        "dict{}}, builtins.str:'/sub': dict{builtins.str:'type': "
                                        "builtins.str:'Dataset', builtins.str:'sizes': "
                                        "dict{builtins.str:'x': builtins.int:3, builtins.str:'y': "
                                        "builtins.int:4}, builtins.str:'data_vars': "
                                        "dict{builtins.str:'e': dict{builtins.str:'dims': "
                                        "tuple(builtins.str:'x', builtins.str:'y'), "
                                        "builtins.str:'dtype': builtins.str:'int64', "
                                        "builtins.str:'attrs': dict{builtins.str:'b': "
                                        "builtins.str:'abc'}, builtins.str:'encoding': dict{}, "
                                        "builtins.str:'data-type': builtins.str:'ndarray', "
                                        "builtins.str:'values': ndarray[<i8|(3, "
                                        '4)|00000000000000000100000000000000020000000000000003000000000000000400000000000000050000000000000006000000000000000700000000000000080000000000000009000000000000000a000000000000000b00000000000000]}}, '
                                        "builtins.str:'coords': dict{builtins.str:'f': "
                                        "dict{builtins.str:'dims': tuple(builtins.str:'y'), "
                                        "builtins.str:'dtype': builtins.str:'float64', "
                                        "builtins.str:'attrs': dict{}, builtins.str:'encoding': "
                                        "dict{}, builtins.str:'data-type': builtins.str:'ndarray', "
                                        "builtins.str:'values': "
                                        'ndarray[<f8|(4,)|000000000000e03f000000000000f83f00000000000004400000000000000c40]}}, '
                                        "builtins.str:'attrs': dict{builtins.str:'level': "
                                        "builtins.int:1, builtins.str:'chunked_with': "
                                        "builtins.str:'(({},), {})'}, builtins.str:'encoding': "
                                        "dict{}}, builtins.str:'/other': dict{builtins.str:'type': "
                                        "builtins.str:'Dataset', builtins.str:'sizes': "
                                        "dict{builtins.str:'t': builtins.int:2}, "
                                        "builtins.str:'data_vars': dict{}, builtins.str:'coords': "
                                        "dict{builtins.str:'t': dict{builtins.str:'dims': "
                                        "tuple(builtins.str:'t'), builtins.str:'dtype': "
                                        "builtins.str:'datetime64[ns]', builtins.str:'attrs': "
                                        "dict{builtins.str:'axis': builtins.str:'T'}, "
                                        "builtins.str:'encoding': dict{}, "
                                        "builtins.str:'data-type': "
                                        "builtins.str:'PandasIndexingAdapter', "
                                        "builtins.str:'values': "
                                        'ndarray[<M8[ns]|(2,)|00008ab9359ae5150000d94acae8e515]}}, '
                                        "builtins.str:'attrs': dict{builtins.str:'chunked_with': "
                                        "builtins.str:'(({},), {})'}, builtins.str:'encoding': "
                                        'dict{}}}}, builtins.str:"[([\'c\'], ({},), {}), ([\'c\'], '
                                        "({},), {}), (['e', 'f'], ({},), {}), (['t'], ({},), "
                                        '{})]", builtins.bool:True)',
 'dataset|nested-coords|mixed': "list(raise builtins.ImportError: chunk manager 'dask' is not "
                                "available. Please make sure 'dask' is installed and importable., "
                                "builtins.str:'None', builtins.bool:True)",
 'tree|nested-coords|mixed': "list(raise builtins.ImportError: chunk manager 'dask' is not "
                             "available. Please make sure 'dask' is installed and importable., "
                             "builtins.str:'None', builtins.bool:True)",
 'dataset-recorded|nested-coords|mixed': "list(dict{builtins.str:'type': builtins.str:'Dataset', "
                                         "builtins.str:'sizes': dict{builtins.str:'x': "
                                         "builtins.int:3}, builtins.str:'data_vars': dict{}, "
                                         "builtins.str:'coords': dict{builtins.str:'c': "
                                         "dict{builtins.str:'dims': tuple(builtins.str:'x'), "
                                         "builtins.str:'dtype': builtins.str:'int8', "
                                         "builtins.str:'attrs': dict{builtins.str:'a': "
                                         "builtins.int:1}, builtins.str:'encoding': dict{}, "
                                         "builtins.str:'data-type': builtins.str:'ndarray', "
                                         "builtins.str:'values': ndarray[|i1|(3,)|010203]}}, "
                                         "builtins.str:'attrs': dict{builtins.str:'level': "
                                         "builtins.int:0, builtins.str:'chunked_with': "
                                         'builtins.str:"(({\'x\': \'auto\'},), {})"}, '
                                         "builtins.str:'encoding': dict{}}, "
                                         'builtins.str:"[([\'c\'], ({\'x\': \'auto\'},), {})]", '
                                         'builtins.bool:True)',
 'tree-recorded|nested-coords|mixed': "list(dict{builtins.str:'type': builtins.str:'DataTree', "
                                      "builtins.str:'name': builtins.NoneType:None, "
                                      "builtins.str:'paths': list(builtins.str:'/', "
                                      "builtins.str:'/sub', builtins.str:'/other'), "
                                      "builtins.str:'nodes': dict{builtins.str:'/': "
                                      "dict{builtins.str:'type': builtins.str:'Dataset', "
                                      "builtins.str:'sizes': dict{builtins.str:'x': "
                                      "builtins.int:3}, builtins.str:'data_vars': dict{}, "
                                      "builtins.str:'coords': dict{builtins.str:'c': "
                                      "dict{builtins.str:'dims': tuple(builtins.str:'x'), "
                                      "builtins.str:'dtype': builtins.str:'int8', "
                                      "builtins.str:'attrs': dict{builtins.str:'a': "
                                      "builtins.int:1}, builtins.str:'encoding': dict{}, "
                                      "builtins.str:'data-type': builtins.str:'ndarray', "
                                      "builtins.str:'values': ndarray[|i1|(3,)|010203]}}, "
                                      "builtins.str:'attrs': dict{builtins.str:'level': "
                                      "builtins.int:0, builtins.str:'chunked_with': "
                                      'builtins.str:"(({\'x\': \'auto\'},), {})"}, '
                                      "builtins.str:'encoding': dict{}}, builtins.str:'/sub': "
                                      "dict{builtins.str:'type': builtins.str:'Dataset', "
                                      "builtins.str:'sizes': dict{builtins.str:'x': "
                                      "builtins.int:3, builtins.str:'y': builtins.int:4}, "
                                      "builtins.str:'data_vars': dict{builtins.str:'e': "
                                      "dict{builtins.str:'dims': tuple(builtins.str:'x', "
                                      "builtins.str:'y'), builtins.str:'dtype': "
                                      "builtins.str:'int64', builtins.str:'attrs': "
                                      "dict{builtins.str:'b': builtins.str:'abc'}, "
                                      "builtins.str:'encoding': dict{}, builtins.str:'data-type': "
                                      "builtins.str:'ndarray', builtins.str:'values': "
                                      'ndarray[<i8|(3, '
                                      '4)|00000000000000000100000000000000020000000000000003000000000000000400000000000000050000000000000006000000000000000700000000000000080000000000000009000000000000000a000000000000000b00000000000000]}}, '
                                      "builtins.str:'coords': dict{builtins.str:'f': "
                                      "dict{builtins.str:'dims': tuple(builtins.str:'y'), "
                                      "builtins.str:'dtype': builtins.str:'float64', "
                                      "builtins.str:'attrs': dict{}, builtins.str:'encoding': "
                                      "dict{}, builtins.str:'data-type': builtins.str:'ndarray', "
                                      "builtins.str:'values': "
                                      'ndarray[<f8|(4,)|000000000000e03f000000000000f83f00000000000004400000000000000c40]}}, '
                                      "builtins.str:'attrs': dict{builtins.str:'level': "
                                      "builtins.int:1, builtins.str:'chunked_with': "
                                      'builtins.str:"(({\'x\': \'auto\'},), {})"}, '
                                      "builtins.str:'encoding': dict{}}, builtins.str:'/other': "
                                      "dict{builtins.str:'type': builtins.str:'Dataset', "
                                      "builtins.str:'sizes': dict{builtins.str:'t': "
                                      "builtins.int:2}, builtins.str:'data_vars': dict{}, "
                                      "builtins.str:'coords': dict{builtins.str:'t': "
                                      "dict{builtins.str:'dims': tuple(builtins.str:'t'), "
                                      "builtins.str:'dtype': builtins.str:'datetime64[ns]', "
                                      "builtins.str:'attrs': dict{builtins.str:'axis': "
                                      "builtins.str:'T'}, builtins.str:'encoding': dict{}, "
                                      "builtins.str:'data-type': "
                                      "builtins.str:'PandasIndexingAdapter', "
                                      "builtins.str:'values': "
                                      'ndarray[<M8[ns]|(2,)|00008ab9359ae5150000d94acae8e515]}}, '
                                      "builtins.str:'attrs': dict{builtins.str:'chunked_with': "
                                      "builtins.str:'(({},), {})'}, builtins.str:'encoding': "
                                      'dict{}}}}, builtins.str:"[([\'c\'], ({\'x\': \'auto\'},), '
                                      "{}), (['c'], ({'x': 'auto'},), {}), (['e', 'f'], ({'x': "
                                      '\'auto\'},), {}), ([\'t\'], ({},), {})]", '
                                      'builtins.bool:True)',
 'dataset|nested-coords|int': "list(raise builtins.AttributeError: 'int' object has no attribute "
                              "'items', builtins.str:'None', builtins.bool:True)",
 'tree|nested-coords|int': "list(raise builtins.AttributeError: 'int' object has no attribute "
                           "'items', builtins.str:'None', builtins.bool:True)",
 'dataset-recorded|nested-coords|int': "list(raise builtins.AttributeError: 'int' object has no "
                                       "attribute 'items', builtins.str:'[]', builtins.bool:True)",
 'tree-recorded|nested-coords|int': "list(raise builtins.AttributeError: 'int' object has no "
                                    "attribute 'items', builtins.str:'[]', builtins.bool:True)",
 'dataset|nested-coords|str': "list(raise builtins.AttributeError: 'str' object has no attribute "
                              "'items', builtins.str:'None', builtins.bool:True)",
 'tree|nested-coords|str': "list(raise builtins.AttributeError: 'str' object has no attribute "
                           "'items', builtins.str:'None', builtins.bool:True)",
 'dataset-recorded|nested-coords|str': "list(raise builtins.AttributeError: 'str' object has no "
                                       "attribute 'items', builtins.str:'[]', builtins.bool:True)",
 'tree-recorded|nested-coords|str': "list(raise builtins.AttributeError: 'str' object has no "
                                    "attribute 'items', builtins.str:'[]', builtins.bool:True)",
 'dataset|nested-coords|list': "list(raise builtins.AttributeError: 'list' object has no attribute "
                               "'items', builtins.str:'None', builtins.bool:True)",
 'tree|nested-coords|list': "list(raise builtins.AttributeError: 'list' object has no attribute "
                            "'items', builtins.str:'None', builtins.bool:True)",
 'dataset-recorded|nested-coords|list': "list(raise builtins.AttributeError: 'list' object has no "
                                        "attribute 'items', builtins.str:'[]', builtins.bool:True)",
 'tree-recorded|nested-coords|list': "list(raise builtins.AttributeError: 'list' object has no "
                                     "attribute 'items', builtins.str:'[]', builtins.bool:True)",
 'dataset|nested-coords|tuple-keys': "list(raise builtins.ImportError: chunk manager 'dask' is not "
                                     "available. Please make sure 'dask' is installed and "
                                     "importable., builtins.str:'None', builtins.bool:True)",
 'tree|nested-coords|tuple-keys': "list(raise builtins.ImportError: chunk manager 'dask' is not "
                                  "available. Please make sure 'dask' is installed and "
                                  "importable., builtins.str:'None', builtins.bool:True)",
 'dataset-recorded|nested-coords|tuple-keys': "list(dict{builtins.str:'type': "
                                              "builtins.str:'Dataset', builtins.str:'sizes': "
                                              "dict{builtins.str:'x': builtins.int:3}, "
                                              "builtins.str:'data_vars': dict{}, "
                                              "builtins.str:'coords': dict{builtins.str:'c': "
                                              "dict{builtins.str:'dims': tuple(builtins.str:'x'), "
                                              "builtins.str:'dtype': builtins.str:'int8', "
                                              "builtins.str:'attrs': dict{builtins.str:'a': "
                                              "builtins.int:1}, builtins.str:'encoding': dict{}, "
                                              "builtins.str:'data-type': builtins.str:'ndarray', "
                                              "builtins.str:'values': ndarray[|i1|(3,)|010203]}}, "
                                              "builtins.str:'attrs': dict{builtins.str:'level': "
                                              "builtins.int:0, builtins.str:'chunked_with': "
                                              "builtins.str:'(({},), {})'}, "
                                              "builtins.str:'encoding': dict{}}, "
                                              'builtins.str:"[([\'c\'], ({},), {})]", '
                                              'builtins.bool:True)',
 'tree-recorded|nested-coords|tuple-keys': "list(dict{builtins.str:'type': "
                                           "builtins.str:'DataTree', builtins.str:'name': "
                                           "builtins.NoneType:None, builtins.str:'paths': "
                                           "list(builtins.str:'/', builtins.str:'/sub', "
                                           "builtins.str:'/other'), builtins.str:'nodes': "
                                           "dict{builtins.str:'/': dict{builtins.str:'type': "
                                           "builtins.str:'Dataset', builtins.str:'sizes': "
                                           "dict{builtins.str:'x': builtins.int:3}, "
                                           "builtins.str:'data_vars': dict{}, "
                                           "builtins.str:'coords': dict{builtins.str:'c': "
                                           "dict{builtins.str:'dims': tuple(builtins.str:'x'), "
                                           "builtins.str:'dtype': builtins.str:'int8', "
                                           "builtins.str:'attrs': dict{builtins.str:'a': "
                                           "builtins.int:1}, builtins.str:'encoding': dict{}, "
                                           "builtins.str:'data-type': builtins.str:'ndarray', "
                                           "builtins.str:'values': ndarray[|i1|(3,)|010203]}}, "
                                           "builtins.str:'attrs': dict{builtins.str:'level': "
                                           "builtins.int:0, builtins.str:'chunked_with': "
                                           "builtins.str:'(({},), {})'}, builtins.str:'encoding': "
                                           "dict{}}, builtins.str:'/sub': "
                                           "dict{builtins.str:'type': builtins.str:'Dataset', "
                                           "builtins.str:'sizes': dict{builtins.str:'x': "
                                           "builtins.int:3, builtins.str:'y': builtins.int:4}, "
                                           "builtins.str:'data_vars': dict{builtins.str:'e': "
                                           "dict{builtins.str:'dims': tuple(builtins.str:'x', "
                                           "builtins.str:'y'), builtins.str:'dtype': "
                                           "builtins.str:'int64', builtins.str:'attrs': "
                                           "dict{builtins.str:'b': builtins.str:'abc'}, "
                                           "builtins.str:'encoding': dict{}, "
                                           "builtins.str:'data-type': builtins.str:'ndarray', "
                                           "builtins.str:'values': ndarray[<i8|(3, "
                                           '4)|00000000000000000100000000000000020000000000000003000000000000000400000000000000050000000000000006000000000000000700000000000000080000000000000009000000000000000a000000000000000b00000000000000]}}, '
                                           "builtins.str:'coords': dict{builtins.str:'f': "
                                           "dict{builtins.str:'dims': tuple(builtins.str:'y'), "
                                           "builtins.str:'dtype': builtins.str:'float64', "
                                           "builtins.str:'attrs': dict{}, builtins.str:'encoding': "
                                           "dict{}, builtins.str:'data-type': "
                                           "builtins.str:'ndarray', builtins.str:'values': "
                                           'ndarray[<f8|(4,)|000000000000e03f000000000000f83f00000000000004400000000000000c40]}}, '
                                           "builtins.str:'attrs': dict{builtins.str:'level': "
                                           "builtins.int:1, builtins.str:'chunked_with': "
                                           "builtins.str:'(({},), {})'}, builtins.str:'encoding': "
                                           "dict{}}, builtins.str:'/other': "
                                           "dict{builtins.str:'type': builtins.str:'Dataset', "
                                           "builtins.str:'sizes': dict{builtins.str:'t': "
                                           "builtins.int:2}, builtins.str:'data_vars': dict{}, "
                                           "builtins.str:'coords': dict{builtins.str:'t': "
                                           "dict{builtins.str:'dims': tuple(builtins.str:'t'), "
                                           "builtins.str:'dtype': builtins.str:'datetime64[ns]', "
                                           "builtins.str:'attrs': dict{builtins.str:'axis': "
                                           "builtins.str:'T'}, builtins.str:'encoding': dict{}, "
                                           "builtins.str:'data-type': "
                                           "builtins.str:'PandasIndexingAdapter', "
                                           "builtins.str:'values': "
                                           'ndarray[<M8[ns]|(2,)|00008ab9359ae5150000d94acae8e515]}}, '
                                           "builtins.str:'attrs': "
                                           "dict{builtins.str:'chunked_with': "
                                           "builtins.str:'(({},), {})'}, builtins.str:'encoding': "
                                           'dict{}}}}, builtins.str:"[([\'c\'], ({},), {}), '
                                           "(['c'], ({},), {}), (['e', 'f'], ({},), {}), (['t'], "
                                           '({},), {})]", builtins.bool:True)',
 'dataset|deep|none': "list(dict{builtins.str:'type': builtins.str:'Dataset', "
                      "builtins.str:'sizes': dict{builtins.str:'y': builtins.int:4}, "
                      "builtins.str:'data_vars': dict{builtins.str:'top': "
                      "dict{builtins.str:'dims': tuple(builtins.str:'y'), builtins.str:'dtype': "
                      "builtins.str:'float64', builtins.str:'attrs': dict{}, "
                      "builtins.str:'encoding': dict{}, builtins.str:'data-type': "
                      "builtins.str:'ndarray', builtins.str:'values': "
                      'ndarray[<f8|(4,)|000000000000e03f000000000000f83f00000000000004400000000000000c40]}}, '
                      "builtins.str:'coords': dict{}, builtins.str:'attrs': "
                      "dict{builtins.str:'product': builtins.str:'e42'}, builtins.str:'encoding': "
                      "dict{}}, builtins.str:'None', builtins.bool:True)",
 'tree|deep|none': "list(dict{builtins.str:'type': builtins.str:'DataTree', builtins.str:'name': "
                   "builtins.NoneType:None, builtins.str:'paths': list(builtins.str:'/', "
                   "builtins.str:'/imagery', builtins.str:'/metadata', builtins.str:'/imagery/HH', "
                   "builtins.str:'/imagery/HV', builtins.str:'/metadata/a', "
                   "builtins.str:'/metadata/a/b'), builtins.str:'nodes': dict{builtins.str:'/': "
                   "dict{builtins.str:'type': builtins.str:'Dataset', builtins.str:'sizes': "
                   "dict{builtins.str:'y': builtins.int:4}, builtins.str:'data_vars': "
                   "dict{builtins.str:'top': dict{builtins.str:'dims': tuple(builtins.str:'y'), "
                   "builtins.str:'dtype': builtins.str:'float64', builtins.str:'attrs': dict{}, "
                   "builtins.str:'encoding': dict{}, builtins.str:'data-type': "
                   "builtins.str:'ndarray', builtins.str:'values': "
                   'ndarray[<f8|(4,)|000000000000e03f000000000000f83f00000000000004400000000000000c40]}}, '
                   "builtins.str:'coords': dict{}, builtins.str:'attrs': "
                   "dict{builtins.str:'product': builtins.str:'e42'}, builtins.str:'encoding': "
                   "dict{}}, builtins.str:'/imagery': dict{builtins.str:'type': "
                   "builtins.str:'Dataset', builtins.str:'sizes': dict{}, "
                   "builtins.str:'data_vars': dict{}, builtins.str:'coords': dict{}, "
                   "builtins.str:'attrs': dict{builtins.str:'kind': builtins.str:'imagery'}, "
                   "builtins.str:'encoding': dict{}}, builtins.str:'/metadata': "
                   "dict{builtins.str:'type': builtins.str:'Dataset', builtins.str:'sizes': "
                   "dict{}, builtins.str:'data_vars': dict{}, builtins.str:'coords': dict{}, "
                   "builtins.str:'attrs': dict{}, builtins.str:'encoding': dict{}}, "
                   "builtins.str:'/imagery/HH': dict{builtins.str:'type': builtins.str:'Dataset', "
                   "builtins.str:'sizes': dict{builtins.str:'rows': builtins.int:4, "
                   "builtins.str:'cols': builtins.int:3}, builtins.str:'data_vars': "
                   "dict{builtins.str:'data': dict{builtins.str:'dims': tuple(builtins.str:'rows', "
                   "builtins.str:'cols'), builtins.str:'dtype': builtins.str:'uint16', "
                   "builtins.str:'attrs': dict{builtins.str:'units': builtins.str:'dn'}, "
                   "builtins.str:'encoding': dict{builtins.str:'preferred_chunksizes': "
                   "dict{builtins.str:'rows': builtins.int:2, builtins.str:'cols': "
                   "builtins.int:3}}, builtins.str:'data-type': builtins.str:'LazilyIndexedArray', "
                   "builtins.str:'values': ndarray[<u2|(4, "
                   "3)|0100040007000a000d0010001300160019001c001f002200]}}, builtins.str:'coords': "
                   "dict{}, builtins.str:'attrs': dict{builtins.str:'pol': builtins.str:'HH'}, "
                   "builtins.str:'encoding': dict{}}, builtins.str:'/imagery/HV': "
                   "dict{builtins.str:'type': builtins.str:'Dataset', builtins.str:'sizes': "
                   "dict{builtins.str:'rows': builtins.int:4, builtins.str:'cols': builtins.int:3, "
                   "builtins.str:'x': builtins.int:3}, builtins.str:'data_vars': "
                   "dict{builtins.str:'data': dict{builtins.str:'dims': tuple(builtins.str:'rows', "
                   "builtins.str:'cols'), builtins.str:'dtype': builtins.str:'uint16', "
                   "builtins.str:'attrs': dict{builtins.str:'units': builtins.str:'dn'}, "
                   "builtins.str:'encoding': dict{builtins.str:'preferred_chunksizes': "
                   "dict{builtins.str:'rows': builtins.int:2, builtins.str:'cols': "
                   "builtins.int:3}}, builtins.str:'data-type': builtins.str:'LazilyIndexedArray', "
                   "builtins.str:'values': ndarray[<u2|(4, "
                   "3)|0100040007000a000d0010001300160019001c001f002200]}}, builtins.str:'coords': "
                   "dict{builtins.str:'c': dict{builtins.str:'dims': tuple(builtins.str:'x'), "
                   "builtins.str:'dtype': builtins.str:'int8', builtins.str:'attrs': "
                   "dict{builtins.str:'a': builtins.int:1}, builtins.str:'encoding': dict{}, "
                   "builtins.str:'data-type': builtins.str:'ndarray', builtins.str:'values': "
                   "ndarray[|i1|(3,)|010203]}}, builtins.str:'attrs': dict{builtins.str:'pol': "
                   "builtins.str:'HV'}, builtins.str:'encoding': dict{}}, "
                   "builtins.str:'/metadata/a': dict{builtins.str:'type': builtins.str:'Dataset', "
                   "builtins.str:'sizes': dict{}, builtins.str:'data_vars': dict{}, "
                   "builtins.str:'coords': dict{}, builtins.str:'attrs': dict{}, "
                   "builtins.str:'encoding': dict{}}, builtins.str:'/metadata/a/b': "
                   "dict{builtins.str:'type': builtins.str:'Dataset', builtins.str:'sizes': "
                   "dict{}, builtins.str:'data_vars': dict{builtins.str:'s': "
                   "dict{builtins.str:'dims': tuple(), builtins.str:'dtype': builtins.str:'int64', "
                   "builtins.str:'attrs': dict{builtins.str:'scalar': builtins.bool:True}, "
                   "builtins.str:'encoding': dict{}, builtins.str:'data-type': "
                   "builtins.str:'ndarray', builtins.str:'values': "
                   "ndarray[<i8|()|0700000000000000]}}, builtins.str:'coords': dict{}, "
                   "builtins.str:'attrs': dict{builtins.str:'depth': builtins.int:3}, "
                   "builtins.str:'encoding': dict{}}}}, builtins.str:'None', builtins.bool:True)",
 'dataset|deep|empty': "list(raise builtins.ImportError: chunk manager 'dask' is not available. "
                       "Please make sure 'dask' is installed and importable., builtins.str:'None', "
                       'builtins.bool:True)',
 'tree|deep|empty': "list(raise builtins.ImportError: chunk manager 'dask' is not available. "
                    "Please make sure 'dask' is installed and importable., builtins.str:'None', "
                    'builtins.bool:True)',
 'dataset-recorded|deep|empty': "list(dict{builtins.str:'type': builtins.str:'Dataset', "
                                "builtins.str:'sizes': dict{builtins.str:'y': builtins.int:4}, "
                                "builtins.str:'data_vars': dict{builtins.str:'top': "
                                "dict{builtins.str:'dims': tuple(builtins.str:'y'), "
                                "builtins.str:'dtype': builtins.str:'float64', "
                                "builtins.str:'attrs': dict{}, builtins.str:'encoding': dict{}, "
                                "builtins.str:'data-type': builtins.str:'ndarray', "
                                "builtins.str:'values': "
                                'ndarray[<f8|(4,)|000000000000e03f000000000000f83f00000000000004400000000000000c40]}}, '
                                "builtins.str:'coords': dict{}, builtins.str:'attrs': "
                                "dict{builtins.str:'product': builtins.str:'e42', "
                                "builtins.str:'chunked_with': builtins.str:'(({},), {})'}, "
                                'builtins.str:\'encoding\': dict{}}, builtins.str:"[([\'top\'], '
                                '({},), {})]", builtins.bool:True)',
 'tree-recorded|deep|empty': "list(dict{builtins.str:'type': builtins.str:'DataTree', "
                             "builtins.str:'name': builtins.NoneType:None, builtins.str:'paths': "
                             "list(builtins.str:'/', builtins.str:'/imagery', "
                             "builtins.str:'/metadata', builtins.str:'/imagery/HH', "
                             "builtins.str:'/imagery/HV', builtins.str:'/metadata/a', "
                             "builtins.str:'/metadata/a/b'), builtins.str:'nodes': "
                             "dict{builtins.str:'/': dict{builtins.str:'type': "
                             "builtins.str:'Dataset', builtins.str:'sizes': dict{builtins.str:'y': "
                             "builtins.int:4}, builtins.str:'data_vars': dict{builtins.str:'top': "
                             "dict{builtins.str:'dims': tuple(builtins.str:'y'), "
                             "builtins.str:'dtype': builtins.str:'float64', builtins.str:'attrs': "
                             "dict{}, builtins.str:'encoding': dict{}, builtins.str:'data-type': "
                             "builtins.str:'ndarray', builtins.str:'values': "
                             'ndarray[<f8|(4,)|000000000000e03f000000000000f83f00000000000004400000000000000c40]}}, '
                             "builtins.str:'coords': dict{}, builtins.str:'attrs': "
                             "dict{builtins.str:'product': builtins.str:'e42', "
                             "builtins.str:'chunked_with': builtins.str:'(({},), {})'}, "
                             "builtins.str:'encoding': dict{}}, builtins.str:'/imagery': "
                             "dict{builtins.str:'type': builtins.str:'Dataset', "
                             "builtins.str:'sizes': dict{}, builtins.str:'data_vars': dict{}, "
                             "builtins.str:'coords': dict{}, builtins.str:'attrs': "
                             "dict{builtins.str:'kind': builtins.str:'imagery', "
                             "builtins.str:'chunked_with': builtins.str:'(({},), {})'}, "
                             "builtins.str:'encoding': dict{}}, builtins.str:'/metadata': "
                             "dict{builtins.str:'type': builtins.str:'Dataset', "
                             "builtins.str:'sizes': dict{}, builtins.str:'data_vars': dict{}, "
                             "builtins.str:'coords': dict{}, builtins.str:'attrs': "
                             "dict{builtins.str:'chunked_with': builtins.str:'(({},), {})'}, "
                             "builtins.str:'encoding': dict{}}, builtins.str:'/imagery/HH': "
                             "dict{builtins.str:'type': builtins.str:'Dataset', "
                             "builtins.str:'sizes': dict{builtins.str:'rows': builtins.int:4, "
                             "builtins.str:'cols': builtins.int:3}, builtins.str:'data_vars': "
                             "dict{builtins.str:'data': dict{builtins.str:'dims': "
                             "tuple(builtins.str:'rows', builtins.str:'cols'), "
                             "builtins.str:'dtype': builtins.str:'uint16', builtins.str:'attrs': "
                             "dict{builtins.str:'units': builtins.str:'dn'}, "
                             "builtins.str:'encoding': dict{builtins.str:'preferred_chunksizes': "
                             "dict{builtins.str:'rows': builtins.int:2, builtins.str:'cols': "
                             "builtins.int:3}}, builtins.str:'data-type': "
                             "builtins.str:'LazilyIndexedArray', builtins.str:'values': "
                             'ndarray[<u2|(4, '
                             '3)|0100040007000a000d0010001300160019001c001f002200]}}, '
                             "builtins.str:'coords': dict{}, builtins.str:'attrs': "
                             "dict{builtins.str:'pol': builtins.str:'HH', "
                             "builtins.str:'chunked_with': builtins.str:'(({},), {})'}, "
                             "builtins.str:'encoding': dict{}}, builtins.str:'/imagery/HV': "
                             "dict{builtins.str:'type': builtins.str:'Dataset', "
                             "builtins.str:'sizes': dict{builtins.str:'rows': builtins.int:4, "
                             "builtins.str:'cols': builtins.int:3, builtins.str:'x': "
                             "builtins.int:3}, builtins.str:'data_vars': dict{builtins.str:'data': "
                             "dict{builtins.str:'dims': tuple(builtins.str:'rows', "
                             "builtins.str:'cols'), builtins.str:'dtype': builtins.str:'uint16', "
                             "builtins.str:'attrs': dict{builtins.str:'units': builtins.str:'dn'}, "
                             "builtins.str:'encoding': dict{builtins.str:'preferred_chunksizes': "
                             "dict{builtins.str:'rows': builtins.int:2, builtins.str:'cols': "
                             "builtins.int:3}}, builtins.str:'data-type': "
                             "builtins.str:'LazilyIndexedArray', builtins.str:'values': "
                             'ndarray[<u2|(4, '
                             '3)|0100040007000a000d0010001300160019001c001f002200]}}, '
                             "builtins.str:'coords': dict{builtins.str:'c': "
                             "dict{builtins.str:'dims': tuple(builtins.str:'x'), "
                             "builtins.str:'dtype': builtins.str:'int8', builtins.str:'attrs': "
                             "dict{builtins.str:'a': builtins.int:1}, builtins.str:'encoding': "
                             "dict{}, builtins.str:'data-type': builtins.str:'ndarray', "
                             "builtins.str:'values': ndarray[|i1|(3,)|010203]}}, "
                             "builtins.str:'attrs': dict{builtins.str:'pol': builtins.str:'HV', "
                             "builtins.str:'chunked_with': builtins.str:'(({},), {})'}, "
                             "builtins.str:'encoding': dict{}}, builtins.str:'/metadata/a': "
                             "dict{builtins.str:'type': builtins.str:'Dataset', "
                             "builtins.str:'sizes': dict{}, builtins.str:'data_vars': dict{}, "
                             "builtins.str:'coords': dict{}, builtins.str:'attrs': "
                             "dict{builtins.str:'chunked_with': builtins.str:'(({},), {})'}, "
                             "builtins.str:'encoding': dict{}}, builtins.str:'/metadata/a/b': "
                             "dict{builtins.str:'type': builtins.str:'Dataset', "
                             "builtins.str:'sizes': dict{}, builtins.str:'data_vars': "
                             "dict{builtins.str:'s': dict{builtins.str:'dims': tuple(), "
                             "builtins.str:'dtype': builtins.str:'int64', builtins.str:'attrs': "
                             "dict{builtins.str:'scalar': builtins.bool:True}, "
                             "builtins.str:'encoding': dict{}, builtins.str:'data-type': "
                             "builtins.str:'ndarray', builtins.str:'values': "
                             "ndarray[<i8|()|0700000000000000]}}, builtins.str:'coords': dict{}, "
                             "builtins.str:'attrs': dict{builtins.str:'depth': builtins.int:3, "
                             "builtins.str:'chunked_with': builtins.str:'(({},), {})'}, "
                             'builtins.str:\'encoding\': dict{}}}}, builtins.str:"[([\'top\'], '
                             "({},), {}), (['top'], ({},), {}), ([], ({},), {}), (['data'], ({},), "
                             "{}), (['c', 'data'], ({},), {}), ([], ({},), {}), ([], ({},), {}), "
                             '([\'s\'], ({},), {})]", builtins.bool:True)',
 'dataset|deep|x': "list(raise builtins.ImportError: chunk manager 'dask' is not available. Please "
                   "make sure 'dask' is installed and importable., builtins.str:'None', "
                   'builtins.bool:True)',
 'tree|deep|x': "list(raise builtins.ImportError: chunk manager 'dask' is not available. Please "
                "make sure 'dask' is installed and importable., builtins.str:'None', "
                'builtins.bool:True)',
 'dataset-recorded|deep|x': "list(dict{builtins.str:'type': builtins.str:'Dataset', "
                            "builtins.str:'sizes': dict{builtins.str:'y': builtins.int:4}, "
                            "builtins.str:'data_vars': dict{builtins.str:'top': "
                            "dict{builtins.str:'dims': tuple(builtins.str:'y'), "
                            "builtins.str:'dtype': builtins.str:'float64', builtins.str:'attrs': "
                            "dict{}, builtins.str:'encoding': dict{}, builtins.str:'data-type': "
                            "builtins.str:'ndarray', builtins.str:'values': "
                            'ndarray[<f8|(4,)|000000000000e03f000000000000f83f00000000000004400000000000000c40]}}, '
                            "builtins.str:'coords': dict{}, builtins.str:'attrs': "
                            "dict{builtins.str:'product': builtins.str:'e42', "
                            "builtins.str:'chunked_with': builtins.str:'(({},), {})'}, "
                            'builtins.str:\'encoding\': dict{}}, builtins.str:"[([\'top\'], ({},), '
                            '{})]", builtins.bool:True)',
 'tree-recorded|deep|x': "list(dict{builtins.str:'type': builtins.str:'DataTree', "
                         "builtins.str:'name': builtins.NoneType:None, builtins.str:'paths': "
                         "list(builtins.str:'/', builtins.str:'/imagery', "
                         "builtins.str:'/metadata', builtins.str:'/imagery/HH', "
                         "builtins.str:'/imagery/HV', builtins.str:'/metadata/a', "
                         "builtins.str:'/metadata/a/b'), builtins.str:'nodes': "
                         "dict{builtins.str:'/': dict{builtins.str:'type': builtins.str:'Dataset', "
                         "builtins.str:'sizes': dict{builtins.str:'y': builtins.int:4}, "
                         "builtins.str:'data_vars': dict{builtins.str:'top': "
                         "dict{builtins.str:'dims': tuple(builtins.str:'y'), builtins.str:'dtype': "
                         "builtins.str:'float64', builtins.str:'attrs': dict{}, "
                         "builtins.str:'encoding': dict{}, builtins.str:'data-type': "
                         "builtins.str:'ndarray', builtins.str:'values': "
                         'ndarray[<f8|(4,)|000000000000e03f000000000000f83f00000000000004400000000000000c40]}}, '
                         "builtins.str:'coords': dict{}, builtins.str:'attrs': "
                         "dict{builtins.str:'product': builtins.str:'e42', "
                         "builtins.str:'chunked_with': builtins.str:'(({},), {})'}, "
                         "builtins.str:'encoding': dict{}}, builtins.str:'/imagery': "
                         "dict{builtins.str:'type': builtins.str:'Dataset', builtins.str:'sizes': "
                         "dict{}, builtins.str:'data_vars': dict{}, builtins.str:'coords': dict{}, "
                         "builtins.str:'attrs': dict{builtins.str:'kind': builtins.str:'imagery', "
                         "builtins.str:'chunked_with': builtins.str:'(({},), {})'}, "
                         "builtins.str:'encoding': dict{}}, builtins.str:'/metadata': "
                         "dict{builtins.str:'type': builtins.str:'Dataset', builtins.str:'sizes': "
                         "dict{}, builtins.str:'data_vars': dict{}, builtins.str:'coords': dict{}, "
                         "builtins.str:'attrs': dict{builtins.str:'chunked_with': "
                         "builtins.str:'(({},), {})'}, builtins.str:'encoding': dict{}}, "
                         "builtins.str:'/imagery/HH': dict{builtins.str:'type': "
                         "builtins.str:'Dataset', builtins.str:'sizes': dict{builtins.str:'rows': "
                         "builtins.int:4, builtins.str:'cols': builtins.int:3}, "
                         "builtins.str:'data_vars': dict{builtins.str:'data': "
                         "dict{builtins.str:'dims': tuple(builtins.str:'rows', "
                         "builtins.str:'cols'), builtins.str:'dtype': builtins.str:'uint16', "
                         "builtins.str:'attrs': dict{builtins.str:'units': builtins.str:'dn'}, "
                         "builtins.str:'encoding': dict{builtins.str:'preferred_chunksizes': "
                         "dict{builtins.str:'rows': builtins.int:2, builtins.str:'cols': "
                         "builtins.int:3}}, builtins.str:'data-type': "
                         "builtins.str:'LazilyIndexedArray', builtins.str:'values': "
                         'ndarray[<u2|(4, 3)|0100040007000a000d0010001300160019001c001f002200]}}, '
                         "builtins.str:'coords': dict{}, builtins.str:'attrs': "
                         "dict{builtins.str:'pol': builtins.str:'HH', builtins.str:'chunked_with': "
                         "builtins.str:'(({},), {})'}, builtins.str:'encoding': dict{}}, "
                         "builtins.str:'/imagery/HV': dict{builtins.str:'type': "
                         "builtins.str:'Dataset', builtins.str:'sizes': dict{builtins.str:'rows': "
                         "builtins.int:4, builtins.str:'cols': builtins.int:3, builtins.str:'x': "
                         "builtins.int:3}, builtins.str:'data_vars': dict{builtins.str:'data': "
                         "dict{builtins.str:'dims': tuple(builtins.str:'rows', "
                         "builtins.str:'cols'), builtins.str:'dtype': builtins.str:'uint16', "
                         "builtins.str:'attrs': dict{builtins.str:'units': builtins.str:'dn'}, "
                         "builtins.str:'encoding': dict{builtins.str:'preferred_chunksizes': "
                         "dict{builtins.str:'rows': builtins.int:2, builtins.str:'cols': "
                         "builtins.int:3}}, builtins.str:'data-type': "
                         "builtins.str:'LazilyIndexedArray', builtins.str:'values': "
                         'ndarray[<u2|(4, 3)|0100040007000a000d0010001300160019001c001f002200]}}, '
                         "builtins.str:'coords': dict{builtins.str:'c': dict{builtins.str:'dims': "
                         "tuple(builtins.str:'x'), builtins.str:'dtype': builtins.str:'int8', "
                         "builtins.str:'attrs': dict{builtins.str:'a': builtins.int:1}, "
                         "builtins.str:'encoding': dict{}, builtins.str:'data-type': "
                         "builtins.str:'ndarray', builtins.str:'values': "
                         "ndarray[|i1|(3,)|010203]}}, builtins.str:'attrs': "
                         "dict{builtins.str:'pol': builtins.str:'HV', builtins.str:'chunked_with': "
                         'builtins.str:"(({\'x\': 1},), {})"}, builtins.str:\'encoding\': dict{}}, '
                         "builtins.str:'/metadata/a': dict{builtins.str:'type': "
                         "builtins.str:'Dataset', builtins.str:'sizes': dict{}, "
                         "builtins.str:'data_vars': dict{}, builtins.str:'coords': dict{}, "
                         "builtins.str:'attrs': dict{builtins.str:'chunked_with': "
                         "builtins.str:'(({},), {})'}, builtins.str:'encoding': dict{}}, "
                         "builtins.str:'/metadata/a/b': dict{builtins.str:'type': "
                         "builtins.str:'Dataset', builtins.str:'sizes': dict{}, "
                         "builtins.str:'data_vars': dict{builtins.str:'s': "
                         "dict{builtins.str:'dims': tuple(), builtins.str:'dtype': "
                         "builtins.str:'int64', builtins.str:'attrs': dict{builtins.str:'scalar': "
                         "builtins.bool:True}, builtins.str:'encoding': dict{}, "
                         "builtins.str:'data-type': builtins.str:'ndarray', builtins.str:'values': "
                         "ndarray[<i8|()|0700000000000000]}}, builtins.str:'coords': dict{}, "
                         "builtins.str:'attrs': dict{builtins.str:'depth': builtins.int:3, "
                         "builtins.str:'chunked_with': builtins.str:'(({},), {})'}, "
                         'builtins.str:\'encoding\': dict{}}}}, builtins.str:"[([\'top\'], ({},), '
                         "{}), (['top'], ({},), {}), ([], ({},), {}), (['data'], ({},), {}), "
                         "(['c', 'data'], ({'x': 1},), {}), ([], ({},), {}), ([], ({},), {}), "
                         '([\'s\'], ({},), {})]", builtins.bool:True)',
 'dataset|deep|xy': "list(raise builtins.ImportError: chunk manager 'dask' is not available. "
                    "Please make sure 'dask' is installed and importable., builtins.str:'None', "
                    'builtins.bool:True)',
 'tree|deep|xy': "list(raise builtins.ImportError: chunk manager 'dask' is not available. Please "
                 "make sure 'dask' is installed and importable., builtins.str:'None', "
                 'builtins.bool:True)',
 'dataset-recorded|deep|xy': "list(dict{builtins.str:'type': builtins.str:'Dataset', "
                             "builtins.str:'sizes': dict{builtins.str:'y': builtins.int:4}, "
                             "builtins.str:'data_vars': dict{builtins.str:'top': "
                             "dict{builtins.str:'dims': tuple(builtins.str:'y'), "
                             "builtins.str:'dtype': builtins.str:'float64', builtins.str:'attrs': "
                             "dict{}, builtins.str:'encoding': dict{}, builtins.str:'data-type': "
                             "builtins.str:'ndarray', builtins.str:'values': "
                             'ndarray[<f8|(4,)|000000000000e03f000000000000f83f00000000000004400000000000000c40]}}, '
                             "builtins.str:'coords': dict{}, builtins.str:'attrs': "
                             "dict{builtins.str:'product': builtins.str:'e42', "
                             'builtins.str:\'chunked_with\': builtins.str:"(({\'y\': 2},), {})"}, '
                             'builtins.str:\'encoding\': dict{}}, builtins.str:"[([\'top\'], '
                             '({\'y\': 2},), {})]", builtins.bool:True)',
 'tree-recorded|deep|xy': "list(dict{builtins.str:'type': builtins.str:'DataTree', "
                          "builtins.str:'name': builtins.NoneType:None, builtins.str:'paths': "
                          "list(builtins.str:'/', builtins.str:'/imagery', "
                          "builtins.str:'/metadata', builtins.str:'/imagery/HH', "
                          "builtins.str:'/imagery/HV', builtins.str:'/metadata/a', "
                          "builtins.str:'/metadata/a/b'), builtins.str:'nodes': "
                          "dict{builtins.str:'/': dict{builtins.str:'type': "
                          "builtins.str:'Dataset', builtins.str:'sizes': dict{builtins.str:'y': "
                          "builtins.int:4}, builtins.str:'data_vars': dict{builtins.str:'top': "
                          "dict{builtins.str:'dims': tuple(builtins.str:'y'), "
                          "builtins.str:'dtype': builtins.str:'float64', builtins.str:'attrs': "
                          "dict{}, builtins.str:'encoding': dict{}, builtins.str:'data-type': "
                          "builtins.str:'ndarray', builtins.str:'values': "
                          'ndarray[<f8|(4,)|000000000000e03f000000000000f83f00000000000004400000000000000c40]}}, '
                          "builtins.str:'coords': dict{}, builtins.str:'attrs': "
                          "dict{builtins.str:'product': builtins.str:'e42', "
                          'builtins.str:\'chunked_with\': builtins.str:"(({\'y\': 2},), {})"}, '
                          "builtins.str:'encoding': dict{}}, builtins.str:'/imagery': "
                          "dict{builtins.str:'type': builtins.str:'Dataset', builtins.str:'sizes': "
                          "dict{}, builtins.str:'data_vars': dict{}, builtins.str:'coords': "
                          "dict{}, builtins.str:'attrs': dict{builtins.str:'kind': "
                          "builtins.str:'imagery', builtins.str:'chunked_with': "
                          "builtins.str:'(({},), {})'}, builtins.str:'encoding': dict{}}, "
                          "builtins.str:'/metadata': dict{builtins.str:'type': "
                          "builtins.str:'Dataset', builtins.str:'sizes': dict{}, "
                          "builtins.str:'data_vars': dict{}, builtins.str:'coords': dict{}, "
                          "builtins.str:'attrs': dict{builtins.str:'chunked_with': "
                          "builtins.str:'(({},), {})'}, builtins.str:'encoding': dict{}}, "
                          "builtins.str:'/imagery/HH': dict{builtins.str:'type': "
                          "builtins.str:'Dataset', builtins.str:'sizes': dict{builtins.str:'rows': "
                          "builtins.int:4, builtins.str:'cols': builtins.int:3}, "
                          "builtins.str:'data_vars': dict{builtins.str:'data': "
                          "dict{builtins.str:'dims': tuple(builtins.str:'rows', "
                          "builtins.str:'cols'), builtins.str:'dtype': builtins.str:'uint16', "
                          "builtins.str:'attrs': dict{builtins.str:'units': builtins.str:'dn'}, "
                          "builtins.str:'encoding': dict{builtins.str:'preferred_chunksizes': "
                          "dict{builtins.str:'rows': builtins.int:2, builtins.str:'cols': "
                          "builtins.int:3}}, builtins.str:'data-type': "
                          "builtins.str:'LazilyIndexedArray', builtins.str:'values': "
                          'ndarray[<u2|(4, 3)|0100040007000a000d0010001300160019001c001f002200]}}, '
                          "builtins.str:'coords': dict{}, builtins.str:'attrs': "
                          "dict{builtins.str:'pol': builtins.str:'HH', "
                          "builtins.str:'chunked_with': builtins.str:'(({},), {})'}, "
                          "builtins.str:'encoding': dict{}}, builtins.str:'/imagery/HV': "
                          "dict{builtins.str:'type': builtins.str:'Dataset', builtins.str:'sizes': "
                          "dict{builtins.str:'rows': builtins.int:4, builtins.str:'cols': "
                          "builtins.int:3, builtins.str:'x': builtins.int:3}, "
                          "builtins.str:'data_vars': dict{builtins.str:'data': "
                          "dict{builtins.str:'dims': tuple(builtins.str:'rows', "
                          "builtins.str:'cols'), builtins.str:'dtype': builtins.str:'uint16', "
                          "builtins.str:'attrs': dict{builtins.str:'units': builtins.str:'dn'}, "
                          "builtins.str:'encoding': dict{builtins.str:'preferred_chunksizes': "
                          "dict{builtins.str:'rows': builtins.int:2, builtins.str:'cols': "
                          "builtins.int:3}}, builtins.str:'data-type': "
                          "builtins.str:'LazilyIndexedArray', builtins.str:'values': "
                          'ndarray[<u2|(4, 3)|0100040007000a000d0010001300160019001c001f002200]}}, '
                          "builtins.str:'coords': dict{builtins.str:'c': dict{builtins.str:'dims': "
                          "tuple(builtins.str:'x'), builtins.str:'dtype': builtins.str:'int8', "
                          "builtins.str:'attrs': dict{builtins.str:'a': builtins.int:1}, "
                          "builtins.str:'encoding': dict{}, builtins.str:'data-type': "
                          "builtins.str:'ndarray', builtins.str:'values': "
                          "ndarray[|i1|(3,)|010203]}}, builtins.str:'attrs': "
                          "dict{builtins.str:'pol': builtins.str:'HV', "
                          'builtins.str:\'chunked_with\': builtins.str:"(({\'x\': 1},), {})"}, '
                          "builtins.str:'encoding': dict{}}, builtins.str:'/metadata/a': "
                          "dict{builtins.str:'type': builtins.str:'Dataset', builtins.str:'sizes': "
                          "dict{}, builtins.str:'data_vars': dict{}, builtins.str:'coords': "
                          "dict{}, builtins.str:'attrs': dict{builtins.str:'chunked_with': "
                          "builtins.str:'(({},), {})'}, builtins.str:'encoding': dict{}}, "
                          "builtins.str:'/metadata/a/b': dict{builtins.str:'type': "
                          "builtins.str:'Dataset', builtins.str:'sizes': dict{}, "
                          "builtins.str:'data_vars': dict{builtins.str:'s': "
                          "dict{builtins.str:'dims': tuple(), builtins.str:'dtype': "
                          "builtins.str:'int64', builtins.str:'attrs': dict{builtins.str:'scalar': "
                          "builtins.bool:True}, builtins.str:'encoding': dict{}, "
                          "builtins.str:'data-type': builtins.str:'ndarray', "
                          "builtins.str:'values': ndarray[<i8|()|0700000000000000]}}, "
                          "builtins.str:'coords': dict{}, builtins.str:'attrs': "
                          "dict{builtins.str:'depth': builtins.int:3, builtins.str:'chunked_with': "
                          "builtins.str:'(({},), {})'}, builtins.str:'encoding': dict{}}}}, "
                          'builtins.str:"[([\'top\'], ({\'y\': 2},), {}), ([\'top\'], ({\'y\': '
                          "2},), {}), ([], ({},), {}), (['data'], ({},), {}), (['c', 'data'], "
                          "({'x': 1},), {}), ([], ({},), {}), ([], ({},), {}), (['s'], ({},), "
                          '{})]", builtins.bool:True)',
 'dataset|deep|yx': "list(raise builtins.ImportError: chunk manager 'dask' is not available. "
                    "Please make sure 'dask' is installed and importable., builtins.str:'None', "
                    'builtins.bool:True)',
 'tree|deep|yx': "list(raise builtins.ImportError: chunk manager 'dask' is not available. Please "
                 "make sure 'dask' is installed and importable., builtins.str:'None', "
                 'builtins.bool:True)',
 'dataset-recorded|deep|yx': "list(dict{builtins.str:'type': builtins.str:'Dataset', "
                             "builtins.str:'sizes': dict{builtins.str:'y': builtins.int:4}, "
                             "builtins.str:'data_vars': dict{builtins.str:'top': "
                             "dict{builtins.str:'dims': tuple(builtins.str:'y'), "
                             "builtins.str:'dtype': builtins.str:'float64', builtins.str:'attrs': "
                             "dict{}, builtins.str:'encoding': dict{}, builtins.str:'data-type': "
                             "builtins.str:'ndarray', builtins.str:'values': "
                             'ndarray[<f8|(4,)|000000000000e03f000000000000f83f00000000000004400000000000000c40]}}, '
                             "builtins.str:'coords': dict{}, builtins.str:'attrs': "
                             "dict{builtins.str:'product': builtins.str:'e42', "
                             'builtins.str:\'chunked_with\': builtins.str:"(({\'y\': 2},), {})"}, '
                             'builtins.str:\'encoding\': dict{}}, builtins.str:"[([\'top\'], '
                             '({\'y\': 2},), {})]", builtins.bool:True)',
 'tree-recorded|deep|yx': "list(dict{builtins.str:'type': builtins.str:'DataTree', "
                          "builtins.str:'name': builtins.NoneType:None, builtins.str:'paths': "
                          "list(builtins.str:'/', builtins.str:'/imagery', "
                          "builtins.str:'/metadata', builtins.str:'/imagery/HH', "
                          "builtins.str:'/imagery/HV', builtins.str:'/metadata/a', "
                          "builtins.str:'/metadata/a/b'), builtins.str:'nodes': "
                          "dict{builtins.str:'/': dict{builtins.str:'type': "
                          "builtins.str:'Dataset', builtins.str:'sizes': dict{builtins.str:'y': "
                          "builtins.int:4}, builtins.str:'data_vars': dict{builtins.str:'top': "
                          "dict{builtins.str:'dims': tuple(builtins.str:'y'), "
                          "builtins.str:'dtype': builtins.str:'float64', builtins.str:'attrs': "
                          "dict{}, builtins.str:'encoding': dict{}, builtins.str:'data-type': "
                          "builtins.str:'ndarray', builtins.str:'values': "
                          'ndarray[<f8|(4,)|000000000000e03f000000000000f83f00000000000004400000000000000c40]}}, '
                          "builtins.str:'coords': dict{}, builtins.str:'attrs': "
                          "dict{builtins.str:'product': builtins.str:'e42', "
                          'builtins.str:\'chunked_with\': builtins.str:"(({\'y\': 2},), {})"}, '
                          "builtins.str:'encoding': dict{}}, builtins.str:'/imagery': "
                          "dict{builtins.str:'type': builtins.str:'Dataset', builtins.str:'sizes': "
                          "dict{}, builtins.str:'data_vars': dict{}, builtins.str:'coords': "
                          "dict{}, builtins.str:'attrs': dict{builtins.str:'kind': "
                          "builtins.str:'imagery', builtins.str:'chunked_with': "
                          "builtins.str:'(({},), {})'}, builtins.str:'encoding': dict{}}, "
                          "builtins.str:'/metadata': dict{builtins.str:'type': "
                          "builtins.str:'Dataset', builtins.str:'sizes': dict{}, "
                          "builtins.str:'data_vars': dict{}, builtins.str:'coords': dict{}, "
                          "builtins.str:'attrs': dict{builtins.str:'chunked_with': "
                          "builtins.str:'(({},), {})'}, builtins.str:'encoding': dict{}}, "
                          "builtins.str:'/imagery/HH': dict{builtins.str:'type': "
                          "builtins.str:'Dataset', builtins.str:'sizes': dict{builtins.str:'rows': "
                          "builtins.int:4, builtins.str:'cols': builtins.int:3}, "
                          "builtins.str:'data_vars': dict{builtins.str:'data': "
                          "dict{builtins.str:'dims': tuple(builtins.str:'rows', "
                          "builtins.str:'cols'), builtins.str:'dtype': builtins.str:'uint16', "
                          "builtins.str:'attrs': dict{builtins.str:'units': builtins.str:'dn'}, "
                          "builtins.str:'encoding': dict{builtins.str:'preferred_chunksizes': "
                          "dict{builtins.str:'rows': builtins.int:2, builtins.str:'cols': "
                          "builtins.int:3}}, builtins.str:'data-type': "
                          "builtins.str:'LazilyIndexedArray', builtins.str:'values': "
                          'ndarray[<u2|(4, 3)|0100040007000a000d0010001300160019001c001f002200]}}, '
                          "builtins.str:'coords': dict{}, builtins.str:'attrs': "
                          "dict{builtins.str:'pol': builtins.str:'HH', "
                          "builtins.str:'chunked_with': builtins.str:'(({},), {})'}, "
                          "builtins.str:'encoding': dict{}}, builtins.str:'/imagery/HV': "
                          "dict{builtins.str:'type': builtins.str:'Dataset', builtins.str:'sizes': "
                          "dict{builtins.str:'rows': builtins.int:4, builtins.str:'cols': "
                          "builtins.int:3, builtins.str:'x': builtins.int:3}, "
                          "builtins.str:'data_vars': dict{builtins.str:'data': "
                          "dict{builtins.str:'dims': tuple(builtins.str:'rows', "
                          "builtins.str:'cols'), builtins.str:'dtype': builtins.str:'uint16', "
                          "builtins.str:'attrs': dict{builtins.str:'units': builtins.str:'dn'}, "
                          "builtins.str:'encoding': dict{builtins.str:'preferred_chunksizes': "
                          "dict{builtins.str:'rows': builtins.int:2, builtins.str:'cols': "
                          "builtins.int:3}}, builtins.str:'data-type': "
                          "builtins.str:'LazilyIndexedArray', builtins.str:'values': "
                          'ndarray[<u2|(4, 3)|0100040007000a000d0010001300160019001c001f002200]}}, '
                          "builtins.str:'coords': dict{builtins.str:'c': dict{builtins.str:'dims': "
                          "tuple(builtins.str:'x'), builtins.str:'dtype': builtins.str:'int8', "
                          "builtins.str:'attrs': dict{builtins.str:'a': builtins.int:1}, "
                          "builtins.str:'encoding': dict{}, builtins.str:'data-type': "
                          "builtins.str:'ndarray', builtins.str:'values': "
                          "ndarray[|i1|(3,)|010203]}}, builtins.str:'attrs': "
                          "dict{builtins.str:'pol': builtins.str:'HV', "
                          'builtins.str:\'chunked_with\': builtins.str:"(({\'x\': -1},), {})"}, '
                          "builtins.str:'encoding': dict{}}, builtins.str:'/metadata/a': "
                          "dict{builtins.str:'type': builtins.str:'Dataset', builtins.str:'sizes': "
                          "dict{}, builtins.str:'data_vars': dict{}, builtins.str:'coords': "
                          "dict{}, builtins.str:'attrs': dict{builtins.str:'chunked_with': "
                          "builtins.str:'(({},), {})'}, builtins.str:'encoding': dict{}}, "
                          "builtins.str:'/metadata/a/b': dict{builtins.str:'type': "
                          "builtins.str:'Dataset', builtins.str:'sizes': dict{}, "
                          "builtins.str:'data_vars': dict{builtins.str:'s': "
                          "dict{builtins.str:'dims': tuple(), builtins.str:'dtype': "
                          "builtins.str:'int64', builtins.str:'attrs': dict{builtins.str:'scalar': "
                          "builtins.bool:True}, builtins.str:'encoding': dict{}, "
                          "builtins.str:'data-type': builtins.str:'ndarray', "
                          "builtins.str:'values': ndarray[<i8|()|0700000000000000]}}, "
                          "builtins.str:'coords': dict{}, builtins.str:'attrs': "
                          "dict{builtins.str:'depth': builtins.int:3, builtins.str:'chunked_with': "
                          "builtins.str:'(({},), {})'}, builtins.str:'encoding': dict{}}}}, "
                          'builtins.str:"[([\'top\'], ({\'y\': 2},), {}), ([\'top\'], ({\'y\': '
                          "2},), {}), ([], ({},), {}), (['data'], ({},), {}), (['c', 'data'], "
                          "({'x': -1},), {}), ([], ({},), {}), ([], ({},), {}), (['s'], ({},), "
                          '{})]", builtins.bool:True)',
 'dataset|deep|unknown': "list(raise builtins.ImportError: chunk manager 'dask' is not available. "
                         "Please make sure 'dask' is installed and importable., "
                         "builtins.str:'None', builtins.bool:True)",
 'tree|deep|unknown': "list(raise builtins.ImportError: chunk manager 'dask' is not available. "
                      "Please make sure 'dask' is installed and importable., builtins.str:'None', "
                      'builtins.bool:True)',
 'dataset-recorded|deep|unknown': "list(dict{builtins.str:'type': builtins.str:'Dataset', "
                                  "builtins.str:'sizes': dict{builtins.str:'y': builtins.int:4}, "
                                  "builtins.str:'data_vars': dict{builtins.str:'top': "
                                  "dict{builtins.str:'dims': tuple(builtins.str:'y'), "
                                  "builtins.str:'dtype': builtins.str:'float64', "
                                  "builtins.str:'attrs': dict{}, builtins.str:'encoding': dict{}, "
                                  "builtins.str:'data-type': builtins.str:'ndarray', "
                                  "builtins.str:'values': "
                                  'ndarray[<f8|(4,)|000000000000e03f000000000000f83f00000000000004400000000000000c40]}}, '
                                  "builtins.str:'coords': dict{}, builtins.str:'attrs': "
                                  "dict{builtins.str:'product': builtins.str:'e42', "
                                  "builtins.str:'chunked_with': builtins.str:'(({},), {})'}, "
                                  'builtins.str:\'encoding\': dict{}}, builtins.str:"[([\'top\'], '
                                  '({},), {})]", builtins.bool:True)',
 'tree-recorded|deep|unknown': "list(dict{builtins.str:'type': builtins.str:'DataTree', "
                               "builtins.str:'name': builtins.NoneType:None, builtins.str:'paths': "
                               "list(builtins.str:'/', builtins.str:'/imagery', "
                               "builtins.str:'/metadata', builtins.str:'/imagery/HH', "
                               "builtins.str:'/imagery/HV', builtins.str:'/metadata/a', "
                               "builtins.str:'/metadata/a/b'), builtins.str:'nodes': "
                               "dict{builtins.str:'/': dict{builtins.str:'type': "
                               "builtins.str:'Dataset', builtins.str:'sizes': "
                               "dict{builtins.str:'y': builtins.int:4}, builtins.str:'data_vars': "
                               "dict{builtins.str:'top': dict{builtins.str:'dims': "
                               "tuple(builtins.str:'y'), builtins.str:'dtype': "
                               "builtins.str:'float64', builtins.str:'attrs': dict{}, "
                               "builtins.str:'encoding': dict{}, builtins.str:'data-type': "
                               "builtins.str:'ndarray', builtins.str:'values': "
                               'ndarray[<f8|(4,)|000000000000e03f000000000000f83f00000000000004400000000000000c40]}}, '
                               "builtins.str:'coords': dict{}, builtins.str:'attrs': "
                               "dict{builtins.str:'product': builtins.str:'e42', "
                               "builtins.str:'chunked_with': builtins.str:'(({},), {})'}, "
                               "builtins.str:'encoding': dict{}}, builtins.str:'/imagery': "
                               "dict{builtins.str:'type': builtins.str:'Dataset', "
                               "builtins.str:'sizes': dict{}, builtins.str:'data_vars': dict{}, "
                               "builtins.str:'coords': dict{}, builtins.str:'attrs': "
                               "dict{builtins.str:'kind': builtins.str:'imagery', "
                               "builtins.str:'chunked_with': builtins.str:'(({},), {})'}, "
                               "builtins.str:'encoding': dict{}}, builtins.str:'/metadata': "
                               "dict{builtins.str:'type': builtins.str:'Dataset', "
                               "builtins.str:'sizes': dict{}, builtins.str:'data_vars': dict{}, "
                               "builtins.str:'coords': dict{}, builtins.str:'attrs': "
                               "dict{builtins.str:'chunked_with': builtins.str:'(({},), {})'}, "
                               "builtins.str:'encoding': dict{}}, builtins.str:'/imagery/HH': "
                               "dict{builtins.str:'type': builtins.str:'Dataset', "
                               "builtins.str:'sizes': dict{builtins.str:'rows': builtins.int:4, "
                               "builtins.str:'cols': builtins.int:3}, builtins.str:'data_vars': "
                               "dict{builtins.str:'data': dict{builtins.str:'dims': "
                               "tuple(builtins.str:'rows', builtins.str:'cols'), "
                               "builtins.str:'dtype': builtins.str:'uint16', builtins.str:'attrs': "
                               "dict{builtins.str:'units': builtins.str:'dn'}, "
                               "builtins.str:'encoding': dict{builtins.str:'preferred_chunksizes': "
                               "dict{builtins.str:'rows': builtins.int:2, builtins.str:'cols': "
                               "builtins.int:3}}, builtins.str:'data-type': "
                               "builtins.str:'LazilyIndexedArray', builtins.str:'values': "
                               'ndarray[<u2|(4, '
                               '3)|0100040007000a000d0010001300160019001c001f002200]}}, '
                               "builtins.str:'coords': dict{}, builtins.str:'attrs': "
                               "dict{builtins.str:'pol': builtins.str:'HH', "
                               "builtins.str:'chunked_with': builtins.str:'(({},), {})'}, "
                               "builtins.str:'encoding': dict{}}, builtins.str:'/imagery/HV': "
                               "dict{builtins.str:'type': builtins.str:'Dataset', "
                               "builtins.str:'sizes': dict{builtins.str:'rows': builtins.int:4, "
                               "builtins.str:'cols': builtins.int:3, builtins.str:'x': "
                               "builtins.int:3}, builtins.str:'data_vars': "
                               "dict{builtins.str:'data': dict{builtins.str:'dims': "
                               "tuple(builtins.str:'rows', builtins.str:'cols'), "
                               "builtins.str:'dtype': builtins.str:'uint16', builtins.str:'attrs': "
                               "dict{builtins.str:'units': builtins.str:'dn'}, "
                               "builtins.str:'encoding': dict{builtins.str:'preferred_chunksizes': "
                               "dict{builtins.str:'rows': builtins.int:2, builtins.str:'cols': "
                               "builtins.int:3}}, builtins.str:'data-type': "
                               "builtins.str:'LazilyIndexedArray', builtins.str:'values': "
                               'ndarray[<u2|(4, '
                               '3)|0100040007000a000d0010001300160019001c001f002200]}}, '
                               "builtins.str:'coords': dict{builtins.str:'c': "
                               "dict{builtins.str:'dims': tuple(builtins.str:'x'), "
                               "builtins.str:'dtype': builtins.str:'int8', builtins.str:'attrs': "
                               "dict{builtins.str:'a': builtins.int:1}, builtins.str:'encoding': "
                               "dict{}, builtins.str:'data-type': builtins.str:'ndarray', "
                               "builtins.str:'values': ndarray[|i1|(3,)|010203]}}, "
                               "builtins.str:'attrs': dict{builtins.str:'pol': builtins.str:'HV', "
                               "builtins.str:'chunked_with': builtins.str:'(({},), {})'}, "
                               "builtins.str:'encoding': dict{}}, builtins.str:'/metadata/a': "
                               "dict{builtins.str:'type': builtins.str:'Dataset', "
                               "builtins.str:'sizes': dict{}, builtins.str:'data_vars': dict{}, "
                               "builtins.str:'coords': dict{}, builtins.str:'attrs': "
                               "dict{builtins.str:'chunked_with': builtins.str:'(({},), {})'}, "
                               "builtins.str:'encoding': dict{}}, builtins.str:'/metadata/a/b': "
                               "dict{builtins.str:'type': builtins.str:'Dataset', "
                               "builtins.str:'sizes': dict{}, builtins.str:'data_vars': "
                               "dict{builtins.str:'s': dict{builtins.str:'dims': tuple(), "
                               "builtins.str:'dtype': builtins.str:'int64', builtins.str:'attrs': "
                               "dict{builtins.str:'scalar': builtins.bool:True}, "
                               "builtins.str:'encoding': dict{}, builtins.str:'data-type': "
                               "builtins.str:'ndarray', builtins.str:'values': "
                               "ndarray[<i8|()|0700000000000000]}}, builtins.str:'coords': dict{}, "
                               "builtins.str:'attrs': dict{builtins.str:'depth': builtins.int:3, "
                               "builtins.str:'chunked_with': builtins.str:'(({},), {})'}, "
                               'builtins.str:\'encoding\': dict{}}}}, builtins.str:"[([\'top\'], '
                               "({},), {}), (['top'], ({},), {}), ([], ({},), {}), (['data'], "
                               "({},), {}), (['c', 'data'], ({},), {}), ([], ({},), {}), ([], "
                               '({},), {}), ([\'s\'], ({},), {})]", builtins.bool:True)',
 'dataset|deep|mixed': "list(raise builtins.ImportError: chunk manager 'dask' is not available. "
                       "Please make sure 'dask' is installed and importable., builtins.str:'None', "
                       'builtins.bool:True)',
 'tree|deep|mixed': "list(raise builtins.ImportError: chunk manager 'dask' is not available. "
                    "Please make sure 'dask' is installed and importable., builtins.str:'None', "
                    'builtins.bool:True)',
 'dataset-recorded|deep|mixed': "list(dict{builtins.str:'type': builtins.str:'Dataset', "
                                "builtins.str:'sizes': dict{builtins.str:'y': builtins.int:4}, "
                                "builtins.str:'data_vars': dict{builtins.str:'top': "
                                "dict{builtins.str:'dims': tuple(builtins.str:'y'), "
                                "builtins.str:'dtype': builtins.str:'float64', "
                                "builtins.str:'attrs': dict{}, builtins.str:'encoding': dict{}, "
                                "builtins.str:'data-type': builtins.str:'ndarray', "
                                "builtins.str:'values': "
                                'ndarray[<f8|(4,)|000000000000e03f000000000000f83f00000000000004400000000000000c40]}}, '
                                "builtins.str:'coords': dict{}, builtins.str:'attrs': "
                                "dict{builtins.str:'product': builtins.str:'e42', "
                                "builtins.str:'chunked_with': builtins.str:'(({},), {})'}, "
                                'builtins.str:\'encoding\': dict{}}, builtins.str:"[([\'top\'], '
                                '({},), {})]", builtins.bool:True)',
 'tree-recorded|deep|mixed': "list(dict{builtins.str:'type': builtins.str:'DataTree', "
                             "builtins.str:'name': builtins.NoneType:None, builtins.str:'paths': "
                             "list(builtins.str:'/', builtins.str:'/imagery', "
                             "builtins.str:'/metadata', builtins.str:'/imagery/HH', "
                             "builtins.str:'/imagery/HV', builtins.str:'/metadata/a', "
                             "builtins.str:'/metadata/a/b'), builtins.str:'nodes': "
                             "dict{builtins.str:'/': dict{builtins.str:'type': "
                             "builtins.str:'Dataset', builtins.str:'sizes': dict{builtins.str:'y': "
                             "builtins.int:4}, builtins.str:'data_vars': dict{builtins.str:'top': "
                             "dict{builtins.str:'dims': tuple(builtins.str:'y'), "
                             "builtins.str:'dtype': builtins.str:'float64', builtins.str:'attrs': "
                             "dict{}, builtins.str:'encoding': dict{}, builtins.str:'data-type': "
                             "builtins.str:'ndarray', builtins.str:'values': "
                             'ndarray[<f8|(4,)|000000000000e03f000000000000f83f00000000000004400000000000000c40]}}, '
                             "builtins.str:'coords': dict{}, builtins.str:'attrs': "
                             "dict{builtins.str:'product': builtins.str:'e42', "
                             "builtins.str:'chunked_with': builtins.str:'(({},), {})'}, "
                             "builtins.str:'encoding': dict{}}, builtins.str:'/imagery': "
                             "dict{builtins.str:'type': builtins.str:'Dataset', "
                             "builtins.str:'sizes': dict{}, builtins.str:'data_vars': dict{}, "
                             "builtins.str:'coords': dict{}, builtins.str:'attrs': "
                             "dict{builtins.str:'kind': builtins.str:'imagery', "
                             "builtins.str:'chunked_with': builtins.str:'(({},), {})'}, "
                             "builtins.str:'encoding': dict{}}, builtins.str:'/metadata': "
                             "dict{builtins.str:'type': builtins.str:'Dataset', "
                             "builtins.str:'sizes': dict{}, builtins.str:'data_vars': dict{}, "
                             "builtins.str:'coords': dict{}, builtins.str:'attrs': "
                             "dict{builtins.str:'chunked_with': builtins.str:'(({},), {})'}, "
                             "builtins.str:'encoding': dict{}}, builtins.str:'/imagery/HH': "
                             "dict{builtins.str:'type': builtins.str:'Dataset', "
                             "builtins.str:'sizes': dict{builtins.str:'rows': builtins.int:4, "
                             "builtins.str:'cols': builtins.int:3}, builtins.str:'data_vars': "
                             "dict{builtins.str:'data': dict{builtins.str:'dims': "
                             "tuple(builtins.str:'rows', builtins.str:'cols'), "
                             "builtins.str:'dtype': builtins.str:'uint16', builtins.str:'attrs': "
                             "dict{builtins.str:'units': builtins.str:'dn'}, "
                             "builtins.str:'encoding': dict{builtins.str:'preferred_chunksizes': "
                             "dict{builtins.str:'rows': builtins.int:2, builtins.str:'cols': "
                             "builtins.int:3}}, builtins.str:'data-type': "
                             "builtins.str:'LazilyIndexedArray', builtins.str:'values': "
                             'ndarray[<u2|(4, '
                             '3)|0100040007000a000d0010001300160019001c001f002200]}}, '
                             "builtins.str:'coords': dict{}, builtins.str:'attrs': "
                             "dict{builtins.str:'pol': builtins.str:'HH', "
                             'builtins.str:\'chunked_with\': builtins.str:"(({\'rows\': 2, '
                             '\'cols\': -1},), {})"}, builtins.str:\'encoding\': dict{}}, '
                             "builtins.str:'/imagery/HV': dict{builtins.str:'type': "
                             "builtins.str:'Dataset', builtins.str:'sizes': "
                             "dict{builtins.str:'rows': builtins.int:4, builtins.str:'cols': "
                             "builtins.int:3, builtins.str:'x': builtins.int:3}, "
                             "builtins.str:'data_vars': dict{builtins.str:'data': "
                             "dict{builtins.str:'dims': tuple(builtins.str:'rows', "
                             "builtins.str:'cols'), builtins.str:'dtype': builtins.str:'uint16', "
                             "builtins.str:'attrs': dict{builtins.str:'units': builtins.str:'dn'}, "
                             "builtins.str:'encoding': dict{builtins.str:'preferred_chunksizes': "
                             "dict{builtins.str:'rows': builtins.int:2, builtins.str:'cols': "
                             "builtins.int:3}}, builtins.str:'data-type': "
                             "builtins.str:'LazilyIndexedArray', builtins.str:'values': "
                             'ndarray[<u2|(4, '
                             '3)|0100040007000a000d0010001300160019001c001f002200]}}, '
                             "builtins.str:'coords': dict{builtins.str:'c': "
                             "dict{builtins.str:'dims': tuple(builtins.str:'x'), "
                             "builtins.str:'dtype': builtins.str:'int8', builtins.str:'attrs': "
                             "dict{builtins.str:'a': builtins.int:1}, builtins.str:'encoding': "
                             "dict{}, builtins.str:'data-type': builtins.str:'ndarray', "
                             "builtins.str:'values': ndarray[|i1|(3,)|010203]}}, "
                             "builtins.str:'attrs': dict{builtins.str:'pol': builtins.str:'HV', "
                             'builtins.str:\'chunked_with\': builtins.str:"(({\'rows\': 2, '
                             '\'cols\': -1, \'x\': \'auto\'},), {})"}, builtins.str:\'encoding\': '
                             "dict{}}, builtins.str:'/metadata/a': dict{builtins.str:'type': "
                             "builtins.str:'Dataset', builtins.str:'sizes': dict{}, "
                             "builtins.str:'data_vars': dict{}, builtins.str:'coords': dict{}, "
                             "builtins.str:'attrs': dict{builtins.str:'chunked_with': "
                             "builtins.str:'(({},), {})'}, builtins.str:'encoding': dict{}}, "
                             "builtins.str:'/metadata/a/b': dict{builtins.str:'type': "
                             "builtins.str:'Dataset', builtins.str:'sizes': dict{}, "
                             "builtins.str:'data_vars': dict{builtins.str:'s': "
                             "dict{builtins.str:'dims': tuple(), builtins.str:'dtype': "
                             "builtins.str:'int64', builtins.str:'attrs': "
                             "dict{builtins.str:'scalar': builtins.bool:True}, "
                             "builtins.str:'encoding': dict{}, builtins.str:'data-type': "
                             "builtins.str:'ndarray', builtins.str:'values': "
                             "ndarray[<i8|()|0700000000000000]}}, builtins.str:'coords': dict{}, "
                             "builtins.str:'attrs': dict{builtins.str:'depth': builtins.int:3, "
                             "builtins.str:'chunked_with': builtins.str:'(({},), {})'}, "
                             'builtins.str:\'encoding\': dict{}}}}, builtins.str:"[([\'top\'], '
                             "({},), {}), (['top'], ({},), {}), ([], ({},), {}), (['data'], "
                             "({'rows': 2, 'cols': -1},), {}), (['c', 'data'], ({'rows': 2, "
                             "'cols': -1, 'x': 'auto'},), {}), ([], ({},), {}), ([], ({},), {}), "
                             '([\'s\'], ({},), {})]", builtins.bool:True)',
 'dataset|deep|int': "list(raise builtins.AttributeError: 'int' object has no attribute 'items', "
                     "builtins.str:'None', builtins.bool:True)",
 'tree|deep|int': "list(raise builtins.AttributeError: 'int' object has no attribute 'items', "
                  "builtins.str:'None', builtins.bool:True)",
 'dataset-recorded|deep|int': "list(raise builtins.AttributeError: 'int' object has no attribute "
                              "'items', builtins.str:'[]', builtins.bool:True)",
 'tree-recorded|deep|int': "list(raise builtins.AttributeError: 'int' object has no attribute "
                           "'items', builtins.str:'[]', builtins.bool:True)",
 'dataset|deep|str': "list(raise builtins.AttributeError: 'str' object has no attribute 'items', "
                     "builtins.str:'None', builtins.bool:True)",
 'tree|deep|str': "list(raise builtins.AttributeError: 'str' object has no attribute 'items', "
                  "builtins.str:'None', builtins.bool:True)",
 'dataset-recorded|deep|str': "list(raise builtins.AttributeError: 'str' object has no attribute "
                              "'items', builtins.str:'[]', builtins.bool:True)",
 'tree-recorded|deep|str': "list(raise builtins.AttributeError: 'str' object has no attribute "
                           "'items', builtins.str:'[]', builtins.bool:True)",
 'dataset|deep|list': "list(raise builtins.AttributeError: 'list' object has no attribute 'items', "
                      "builtins.str:'None', builtins.bool:True)",
 'tree|deep|list': "list(raise builtins.AttributeError: 'list' object has no attribute 'items', "
                   "builtins.str:'None', builtins.bool:True)",
 'dataset-recorded|deep|list': "list(raise builtins.AttributeError: 'list' object has no attribute "
                               "'items', builtins.str:'[]', builtins.bool:True)",
 'tree-recorded|deep|list': "list(raise builtins.AttributeError: 'list' object has no attribute "
                            "'items', builtins.str:'[]', builtins.bool:True)",
 'dataset|deep|tuple-keys': "list(raise builtins.ImportError: chunk manager 'dask' is not "
                            "available. Please make sure 'dask' is installed and importable., "
                            "builtins.str:'None', builtins.bool:True)",
 'tree|deep|tuple-keys': "list(raise builtins.ImportError: chunk manager 'dask' is not available. "
                         "Please make sure 'dask' is installed and importable., "
                         "builtins.str:'None', builtins.bool:True)",
 'dataset-recorded|deep|tuple-keys': "list(dict{builtins.str:'type': builtins.str:'Dataset', "
                                     "builtins.str:'sizes': dict{builtins.str:'y': "
                                     "builtins.int:4}, builtins.str:'data_vars': "
                                     "dict{builtins.str:'top': dict{builtins.str:'dims': "
                                     "tuple(builtins.str:'y'), builtins.str:'dtype': "
                                     "builtins.str:'float64', builtins.str:'attrs': dict{}, "
                                     "builtins.str:'encoding': dict{}, builtins.str:'data-type': "
                                     "builtins.str:'ndarray', builtins.str:'values': "
                                     'ndarray[<f8|(4,)|000000000000e03f000000000000f83f00000000000004400000000000000c40]}}, '
                                     "builtins.str:'coords': dict{}, builtins.str:'attrs': "
                                     "dict{builtins.str:'product': builtins.str:'e42', "
                                     "builtins.str:'chunked_with': builtins.str:'(({},), {})'}, "
                                     "builtins.str:'encoding': dict{}}, "
                                     'builtins.str:"[([\'top\'], ({},), {})]", builtins.bool:True)',
 'tree-recorded|deep|tuple-keys': "list(dict{builtins.str:'type': builtins.str:'DataTree', "
                                  "builtins.str:'name': builtins.NoneType:None, "
                                  "builtins.str:'paths': list(builtins.str:'/', "
                                  "builtins.str:'/imagery', builtins.str:'/metadata', "
                                  "builtins.str:'/imagery/HH', builtins.str:'/imagery/HV', "
                                  "builtins.str:'/metadata/a', builtins.str:'/metadata/a/b'), "
                                  "builtins.str:'nodes': dict{builtins.str:'/': "
                                  "dict{builtins.str:'type': builtins.str:'Dataset', "
                                  "builtins.str:'sizes': dict{builtins.str:'y': builtins.int:4}, "
                                  "builtins.str:'data_vars': dict{builtins.str:'top': "
                                  "dict{builtins.str:'dims': tuple(builtins.str:'y'), "
                                  "builtins.str:'dtype': builtins.str:'float64', "
                                  "builtins.str:'attrs': dict{}, builtins.str:'encoding': dict{}, "
                                  "builtins.str:'data-type': builtins.str:'ndarray', "
                                  "builtins.str:'values': "
                                  'ndarray[<f8|(4,)|000000000000e03f000000000000f83f00000000000004400000000000000c40]}}, '
                                  "builtins.str:'coords': dict{}, builtins.str:'attrs': "
                                  "dict{builtins.str:'product': builtins.str:'e42', "
                                  "builtins.str:'chunked_with': builtins.str:'(({},), {})'}, "
                                  "builtins.str:'encoding': dict{}}, builtins.str:'/imagery': "
                                  "dict{builtins.str:'type': builtins.str:'Dataset', "
                                  "builtins.str:'sizes': dict{}, builtins.str:'data_vars': dict{}, "
                                  "builtins.str:'coords': dict{}, builtins.str:'attrs': "
                                  "dict{builtins.str:'kind': builtins.str:'imagery', "
                                  "builtins.str:'chunked_with': builtins.str:'(({},), {})'}, "
                                  "builtins.str:'encoding': dict{}}, builtins.str:'/metadata': "
                                  "dict{builtins.str:'type': builtins.str:'Dataset', "
                                  "builtins.str:'sizes': dict{}, builtins.str:'data_vars': dict{}, "
                                  "builtins.str:'coords': dict{}, builtins.str:'attrs': "
                                  "dict{builtins.str:'chunked_with': builtins.str:'(({},), {})'}, "
                                  "builtins.str:'encoding': dict{}}, builtins.str:'/imagery/HH': "
                                  "dict{builtins.str:'type': builtins.str:'Dataset', "
                                  "builtins.str:'sizes': dict{builtins.str:'rows': builtins.int:4, "
                                  "builtins.str:'cols': builtins.int:3}, builtins.str:'data_vars': "
                                  "dict{builtins.str:'data': dict{builtins.str:'dims': "
                                  "tuple(builtins.str:'rows', builtins.str:'cols'), "
                                  "builtins.str:'dtype': builtins.str:'uint16', "
                                  "builtins.str:'attrs': dict{builtins.str:'units': "
                                  "builtins.str:'dn'}, builtins.str:'encoding': "
                                  "dict{builtins.str:'preferred_chunksizes': "
                                  "dict{builtins.str:'rows': builtins.int:2, builtins.str:'cols': "
                                  "builtins.int:3}}, builtins.str:'data-type': "
                                  "builtins.str:'LazilyIndexedArray', builtins.str:'values': "
                                  'ndarray[<u2|(4, '
                                  '3)|0100040007000a000d0010001300160019001c001f002200]}}, '
                                  "builtins.str:'coords': dict{}, builtins.str:'attrs': "
                                  "dict{builtins.str:'pol': builtins.str:'HH', "
                                  "builtins.str:'chunked_with': builtins.str:'(({},), {})'}, "
                                  "builtins.str:'encoding': dict{}}, builtins.str:'/imagery/HV': "
                                  "dict{builtins.str:'type': builtins.str:'Dataset', "
                                  "builtins.str:'sizes': dict{builtins.str:'rows': builtins.int:4, "
                                  "builtins.str:'cols': builtins.int:3, builtins.str:'x': "
                                  "builtins.int:3}, builtins.str:'data_vars': "
                                  "dict{builtins.str:'data': dict{builtins.str:'dims': "
                                  "tuple(builtins.str:'rows', builtins.str:'cols'), "
                                  "builtins.str:'dtype': builtins.str:'uint16', "
                                  "builtins.str:'attrs': dict{builtins.str:'units': "
                                  "builtins.str:'dn'}, builtins.str:'encoding': "
                                  "dict{builtins.str:'preferred_chunksizes': "
                                  "dict{builtins.str:'rows': builtins.int:2, builtins.str:'cols': "
                                  "builtins.int:3}}, builtins.str:'data-type': "
                                  "builtins.str:'LazilyIndexedArray', builtins.str:'values': "
                                  'ndarray[<u2|(4, '
                                  '3)|0100040007000a000d0010001300160019001c001f002200]}}, '
                                  "builtins.str:'coords': dict{builtins.str:'c': "
                                  "dict{builtins.str:'dims': tuple(builtins.str:'x'), "
                                  "builtins.str:'dtype': builtins.str:'int8', "
                                  "builtins.str:'attrs': dict{builtins.str:'a': builtins.int:1}, "
                                  "builtins.str:'encoding': dict{}, builtins.str:'data-type': "
                                  "builtins.str:'ndarray', builtins.str:'values': "
                                  "ndarray[|i1|(3,)|010203]}}, builtins.str:'attrs': "
                                  "dict{builtins.str:'pol': builtins.str:'HV', "
                                  "builtins.str:'chunked_with': builtins.str:'(({},), {})'}, "
                                  "builtins.str:'encoding': dict{}}, builtins.str:'/metadata/a': "
                                  "dict{builtins.str:'type': builtins.str:'Dataset', "
                                  "builtins.str:'sizes': dict{}, builtins.str:'data_vars': dict{}, "
                                  "builtins.str:'coords': dict{}, builtins.str:'attrs': "
                                  "dict{builtins.str:'chunked_with': builtins.str:'(({},), {})'}, "
                                  "builtins.str:'encoding': dict{}}, builtins.str:'/metadata/a/b': "
                                  "dict{builtins.str:'type': builtins.str:'Dataset', "
                                  "builtins.str:'sizes': dict{}, builtins.str:'data_vars': "
                                  "dict{builtins.str:'s': dict{builtins.str:'dims': tuple(), "
                                  "builtins.str:'dtype': builtins.str:'int64', "
                                  "builtins.str:'attrs': dict{builtins.str:'scalar': "
                                  "builtins.bool:True}, builtins.str:'encoding': dict{}, "
                                  "builtins.str:'data-type': builtins.str:'ndarray', "
                                  "builtins.str:'values': ndarray[<i8|()|0700000000000000]}}, "
                                  "builtins.str:'coords': dict{}, builtins.str:'attrs': "
                                  "dict{builtins.str:'depth': builtins.int:3, "
                                  "builtins.str:'chunked_with': builtins.str:'(({},), {})'}, "
                                  "builtins.str:'encoding': dict{}}}}, "
                                  'builtins.str:"[([\'top\'], ({},), {}), ([\'top\'], ({},), {}), '
                                  "([], ({},), {}), (['data'], ({},), {}), (['c', 'data'], ({},), "
                                  '{}), ([], ({},), {}), ([], ({},), {}), ([\'s\'], ({},), {})]", '
                                  'builtins.bool:True)',
 'dataset|only-groups|none': "list(dict{builtins.str:'type': builtins.str:'Dataset', "
                             "builtins.str:'sizes': dict{}, builtins.str:'data_vars': dict{}, "
                             "builtins.str:'coords': dict{}, builtins.str:'attrs': dict{}, "
                             "builtins.str:'encoding': dict{}}, builtins.str:'None', "
                             'builtins.bool:True)',
 'tree|only-groups|none': "list(dict{builtins.str:'type': builtins.str:'DataTree', "
                          "builtins.str:'name': builtins.NoneType:None, builtins.str:'paths': "
                          "list(builtins.str:'/', builtins.str:'/a', builtins.str:'/b'), "
                          "builtins.str:'nodes': dict{builtins.str:'/': dict{builtins.str:'type': "
                          "builtins.str:'Dataset', builtins.str:'sizes': dict{}, "
                          "builtins.str:'data_vars': dict{}, builtins.str:'coords': dict{}, "
                          "builtins.str:'attrs': dict{}, builtins.str:'encoding': dict{}}, "
                          "builtins.str:'/a': dict{builtins.str:'type': builtins.str:'Dataset', "
                          "builtins.str:'sizes': dict{}, builtins.str:'data_vars': dict{}, "
                          "builtins.str:'coords': dict{}, builtins.str:'attrs': dict{}, "
                          "builtins.str:'encoding': dict{}}, builtins.str:'/b': "
                          "dict{builtins.str:'type': builtins.str:'Dataset', builtins.str:'sizes': "
                          "dict{}, builtins.str:'data_vars': dict{}, builtins.str:'coords': "
                          "dict{}, builtins.str:'attrs': dict{builtins.str:'x': builtins.int:1}, "
                          "builtins.str:'encoding': dict{}}}}, builtins.str:'None', "
                          'builtins.bool:True)',
 'dataset|only-groups|empty': "list(raise builtins.ImportError: chunk manager 'dask' is not "
                              "available. Please make sure 'dask' is installed and importable., "
                              "builtins.str:'None', builtins.bool:True)",
 'tree|only-groups|empty': "list(raise builtins.ImportError: chunk manager 'dask' is not "
                           "available. Please make sure 'dask' is installed and importable., "
                           "builtins.str:'None', builtins.bool:True)",
 'dataset-recorded|only-groups|empty': "list(dict{builtins.str:'type': builtins.str:'Dataset', "
                                       "builtins.str:'sizes': dict{}, builtins.str:'data_vars': "
                                       "dict{}, builtins.str:'coords': dict{}, "
                                       "builtins.str:'attrs': dict{builtins.str:'chunked_with': "
                                       "builtins.str:'(({},), {})'}, builtins.str:'encoding': "
                                       "dict{}}, builtins.str:'[([], ({},), {})]', "
                                       'builtins.bool:True)',
 'tree-recorded|only-groups|empty': "list(dict{builtins.str:'type': builtins.str:'DataTree', "
                                    "builtins.str:'name': builtins.NoneType:None, "
                                    "builtins.str:'paths': list(builtins.str:'/', "
                                    "builtins.str:'/a', builtins.str:'/b'), builtins.str:'nodes': "
                                    "dict{builtins.str:'/': dict{builtins.str:'type': "
                                    "builtins.str:'Dataset', builtins.str:'sizes': dict{}, "
                                    "builtins.str:'data_vars': dict{}, builtins.str:'coords': "
                                    "dict{}, builtins.str:'attrs': "
                                    "dict{builtins.str:'chunked_with': builtins.str:'(({},), "
                                    "{})'}, builtins.str:'encoding': dict{}}, builtins.str:'/a': "
                                    "dict{builtins.str:'type': builtins.str:'Dataset', "
                                    "builtins.str:'sizes': dict{}, builtins.str:'data_vars': "
                                    "dict{}, builtins.str:'coords': dict{}, builtins.str:'attrs': "
                                    "dict{builtins.str:'chunked_with': builtins.str:'(({},), "
                                    "{})'}, builtins.str:'encoding': dict{}}, builtins.str:'/b': "
                                    "dict{builtins.str:'type': builtins.str:'Dataset', "
                                    "builtins.str:'sizes': dict{}, builtins.str:'data_vars': "
                                    "dict{}, builtins.str:'coords': dict{}, builtins.str:'attrs': "
                                    "dict{builtins.str:'x': builtins.int:1, "
                                    "builtins.str:'chunked_with': builtins.str:'(({},), {})'}, "
                                    "builtins.str:'encoding': dict{}}}}, builtins.str:'[([], "
                                    '({},), {}), ([], ({},), {}), ([], ({},), {}), ([], ({},), '
                                    "{})]', builtins.bool:True)",
 'dataset|only-groups|x': "list(raise builtins.ImportError: chunk manager 'dask' is not available. "
                          "Please make sure 'dask' is installed and importable., "
                          "builtins.str:'None', builtins.bool:True)",
 'tree|only-groups|x': "list(raise builtins.ImportError: chunk manager 'dask' is not available. "
                       "Please make sure 'dask' is installed and importable., builtins.str:'None', "
                       'builtins.bool:True)',
 'dataset-recorded|only-groups|x': "list(dict{builtins.str:'type': builtins.str:'Dataset', "
                                   "builtins.str:'sizes': dict{}, builtins.str:'data_vars': "
                                   "dict{}, builtins.str:'coords': dict{}, builtins.str:'attrs': "
                                   "dict{builtins.str:'chunked_with': builtins.str:'(({},), {})'}, "
                                   "builtins.str:'encoding': dict{}}, builtins.str:'[([], ({},), "
                                   "{})]', builtins.bool:True)",
 'tree-recorded|only-groups|x': "list(dict{builtins.str:'type': builtins.str:'DataTree', "
                                "builtins.str:'name': builtins.NoneType:None, "
                                "builtins.str:'paths': list(builtins.str:'/', builtins.str:'/a', "
                                "builtins.str:'/b'), builtins.str:'nodes': dict{builtins.str:'/': "
                                "dict{builtins.str:'type': builtins.str:'Dataset', "
                                "builtins.str:'sizes': dict{}, builtins.str:'data_vars': dict{}, "
                                "builtins.str:'coords': dict{}, builtins.str:'attrs': "
                                "dict{builtins.str:'chunked_with': builtins.str:'(({},), {})'}, "
                                "builtins.str:'encoding': dict{}}, builtins.str:'/a': "
                                "dict{builtins.str:'type': builtins.str:'Dataset', "
                                "builtins.str:'sizes': dict{}, builtins.str:'data_vars': dict{}, "
                                "builtins.str:'coords': dict{}, builtins.str:'attrs': "
                                "dict{builtins.str:'chunked_with': builtins.str:'(({},), {})'}, "
                                "builtins.str:'encoding': dict{}}, builtins.str:'/b': "
                                "dict{builtins.str:'type': builtins.str:'Dataset', "
                                "builtins.str:'sizes': dict{}, builtins.str:'data_vars': dict{}, "
                                "builtins.str:'coords': dict{}, builtins.str:'attrs': "
                                "dict{builtins.str:'x': builtins.int:1, "
                                "builtins.str:'chunked_with': builtins.str:'(({},), {})'}, "
                                "builtins.str:'encoding': dict{}}}}, builtins.str:'[([], ({},), "
                                "{}), ([], ({},), {}), ([], ({},), {}), ([], ({},), {})]', "
                                'builtins.bool:True)',
 'dataset|only-groups|xy': "list(raise builtins.ImportError: chunk manager 'dask' is not "
                           "available. Please make sure 'dask' is installed and importable., "
                           "builtins.str:'None', builtins.bool:True)",
 'tree|only-groups|xy': "list(raise builtins.ImportError: chunk manager 'dask' is not available. "
                        "Please make sure 'dask' is installed and importable., "
                        "builtins.str:'None', builtins.bool:True)",
 'dataset-recorded|only-groups|xy': "list(dict{builtins.str:'type': builtins.str:'Dataset', "
                                    "builtins.str:'sizes': dict{}, builtins.str:'data_vars': "
                                    "dict{}, builtins.str:'coords': dict{}, builtins.str:'attrs': "
                                    "dict{builtins.str:'chunked_with': builtins.str:'(({},), "
                                    "{})'}, builtins.str:'encoding': dict{}}, builtins.str:'[([], "
                                    "({},), {})]', builtins.bool:True)",
 'tree-recorded|only-groups|xy': "list(dict{builtins.str:'type': builtins.str:'DataTree', "
                                 "builtins.str:'name': builtins.NoneType:None, "
                                 "builtins.str:'paths': list(builtins.str:'/', builtins.str:'/a', "
                                 "builtins.str:'/b'), builtins.str:'nodes': dict{builtins.str:'/': "
                                 "dict{builtins.str:'type': builtins.str:'Dataset', "
                                 "builtins.str:'sizes': dict{}, builtins.str:'data_vars': dict{}, "
                                 "builtins.str:'coords': dict{}, builtins.str:'attrs': "
                                 "dict{builtins.str:'chunked_with': builtins.str:'(({},), {})'}, "
                                 "builtins.str:'encoding': dict{}}, builtins.str:'/a': "
                                 "dict{builtins.str:'type': builtins.str:'Dataset', "
                                 "builtins.str:'sizes': dict{}, builtins.str:'data_vars': dict{}, "
                                 "builtins.str:'coords': dict{}, builtins.str:'attrs': "
                                 "dict{builtins.str:'chunked_with': builtins.str:'(({},), {})'}, "
                                 "builtins.str:'encoding': dict{}}, builtins.str:'/b': "
                                 "dict{builtins.str:'type': builtins.str:'Dataset', "
                                 "builtins.str:'sizes': dict{}, builtins.str:'data_vars': dict{}, "
                                 "builtins.str:'coords': dict{}, builtins.str:'attrs': "
                                 "dict{builtins.str:'x': builtins.int:1, "
                                 "builtins.str:'chunked_with': builtins.str:'(({},), {})'}, "
                                 "builtins.str:'encoding': dict{}}}}, builtins.str:'[([], ({},), "
                                 "{}), ([], ({},), {}), ([], ({},), {}), ([], ({},), {})]', "
                                 'builtins.bool:True)',
 'dataset|only-groups|yx': "list(raise builtins.ImportError: chunk manager 'dask' is not "
                           "available. Please make sure 'dask' is installed and importable., "
                           "builtins.str:'None', builtins.bool:True)",
 'tree|only-groups|yx': "list(raise builtins.ImportError: chunk manager 'dask' is not available. "
                        "Please make sure 'dask' is installed and importable., "
                        "builtins.str:'None', builtins.bool:True)",
 'dataset-recorded|only-groups|yx': "list(dict{builtins.str:'type': builtins.str:'Dataset', "
                                    "builtins.str:'sizes': dict{}, builtins.str:'data_vars': "
                                    "dict{}, builtins.str:'coords': dict{}, builtins.str:'attrs': "
                                    "dict{builtins.str:'chunked_with': builtins.str:'(({},), "
                                    "{})'}, builtins.str:'encoding': dict{}}, builtins.str:'[([], "
                                    "({},), {})]', builtins.bool:True)",
 'tree-recorded|only-groups|yx': "list(dict{builtins.str:'type': builtins.str:'DataTree', "
                                 "builtins.str:'name': builtins.NoneType:None, "
                                 "builtins.str:'paths': list(builtins.str:'/', builtins.str:'/a', "
                                 "builtins.str:'/b'), builtins.str:'nodes': dict{builtins.str:'/': "
                                 "dict{builtins.str:'type': builtins.str:'Dataset', "
                                 "builtins.str:'sizes': dict{}, builtins.str:'data_vars': dict{}, "
                                 "builtins.str:'coords': dict{}, builtins.str:'attrs': "
                                 "dict{builtins.str:'chunked_with': builtins.str:'(({},), {})'}, "
                                 "builtins.str:'encoding': dict{}}, builtins.str:'/a': "
                                 "dict{builtins.str:'type': builtins.str:'Dataset', "
                                 "builtins.str:'sizes': dict{}, builtins.str:'data_vars': dict{}, "
                                 "builtins.str:'coords': dict{}, builtins.str:'attrs': "
                                 "dict{builtins.str:'chunked_with': builtins.str:'(({},), {})'}, "
                                 "builtins.str:'encoding': dict{}}, builtins.str:'/b': "
                                 "dict{builtins.str:'type': builtins.str:'Dataset', "
                                 "builtins.str:'sizes': dict{}, builtins.str:'data_vars': dict{}, "
                                 "builtins.str:'coords': dict{}, builtins.str:'attrs': "
                                 "dict{builtins.str:'x': builtins.int:1, "
                                 "builtins.str:'chunked_with': builtins.str:'(({},), {})'}, "
                                 "builtins.str:'encoding': dict{}}}}, builtins.str:'[([], ({},), "
                                 "{}), ([], ({},), {}), ([], ({},), {}), ([], ({},), {})]', "
                                 'builtins.bool:True)',
 'dataset|only-groups|unknown': "list(raise builtins.ImportError: chunk manager 'dask' is not "
                                "available. Please make sure 'dask' is installed and importable., "
                                "builtins.str:'None', builtins.bool:True)",
 'tree|only-groups|unknown': "list(raise builtins.ImportError: chunk manager 'dask' is not "
                             "available. Please make sure 'dask' is installed and importable., "
                             "builtins.str:'None', builtins.bool:True)",
 'dataset-recorded|only-groups|unknown': "list(dict{builtins.str:'type': builtins.str:'Dataset', "
                                         "builtins.str:'sizes': dict{}, builtins.str:'data_vars': "
                                         "dict{}, builtins.str:'coords': dict{}, "
                                         "builtins.str:'attrs': dict{builtins.str:'chunked_with': "
                                         "builtins.str:'(({},), {})'}, builtins.str:'encoding': "
                                         "dict{}}, builtins.str:'[([], ({},), {})]', "
                                         'builtins.bool:True)',
 'tree-recorded|only-groups|unknown': "list(dict{builtins.str:'type': builtins.str:'DataTree', "
                                      "builtins.str:'name': builtins.NoneType:None, "
                                      "builtins.str:'paths': list(builtins.str:'/', "
                                      "builtins.str:'/a', builtins.str:'/b'), "
                                      "builtins.str:'nodes': dict{builtins.str:'/': "
                                      "dict{builtins.str:'type': builtins.str:'Dataset', "
                                      "builtins.str:'sizes': dict{}, builtins.str:'data_vars': "
                                      "dict{}, builtins.str:'coords': dict{}, "
                                      "builtins.str:'attrs': dict{builtins.str:'chunked_with': "
                                      "builtins.str:'(({},), {})'}, builtins.str:'encoding': "
                                      "dict{}}, builtins.str:'/a': dict{builtins.str:'type': "
                                      "builtins.str:'Dataset', builtins.str:'sizes': dict{}, "
                                      "builtins.str:'data_vars': dict{}, builtins.str:'coords': "
                                      "dict{}, builtins.str:'attrs': "
                                      "dict{builtins.str:'chunked_with': builtins.str:'(({},), "
                                      "{})'}, builtins.str:'encoding': dict{}}, builtins.str:'/b': "
                                      "dict{builtins.str:'type': builtins.str:'Dataset', "
                                      "builtins.str:'sizes': dict{}, builtins.str:'data_vars': "
                                      "dict{}, builtins.str:'coords': dict{}, "
                                      "builtins.str:'attrs': dict{builtins.str:'x': "
                                      "builtins.int:1, builtins.str:'chunked_with': "
                                      "builtins.str:'(({},), {})'}, builtins.str:'encoding': "
                                      "dict{}}}}, builtins.str:'[([], ({},), {}), ([], ({},), {}), "
                                      "([], ({},), {}), ([], ({},), {})]', builtins.bool:True)",
 'dataset|only-groups|mixed': "list(raise builtins.ImportError: chunk manager 'dask' is not "
                              "available. Please make sure 'dask' is installed and importable., "
                              "builtins.str:'None', builtins.bool:True)",
 'tree|only-groups|mixed': "list(raise builtins.ImportError: chunk manager 'dask' is not "
                           "available. Please make sure 'dask' is installed and importable., "
                           "builtins.str:'None', builtins.bool:True)",
 'dataset-recorded|only-groups|mixed': "list(dict{builtins.str:'type': builtins.str:'Dataset', "
                                       "builtins.str:'sizes': dict{}, builtins.str:'data_vars': "
                                       "dict{}, builtins.str:'coords': dict{}, "
                                       "builtins.str:'attrs': dict{builtins.str:'chunked_with': "
                                       "builtins.str:'(({},), {})'}, builtins.str:'encoding': "
                                       "dict{}}, builtins.str:'[([], ({},), {})]', "
                                       'builtins.bool:True)',
 'tree-recorded|only-groups|mixed': "list(dict{builtins.str:'type': builtins.str:'DataTree', "
                                    "builtins.str:'name': builtins.NoneType:None, "
                                    "builtins.str:'paths': list(builtins.str:'/', "
                                    "builtins.str:'/a', builtins.str:'/b'), builtins.str:'nodes': "
                                    "dict{builtins.str:'/': dict{builtins.str:'type': "
                                    "builtins.str:'Dataset', builtins.str:'sizes': dict{}, "
                                    "builtins.str:'data_vars': dict{}, builtins.str:'coords': "
                                    "dict{}, builtins.str:'attrs': "
                                    "dict{builtins.str:'chunked_with': builtins.str:'(({},), "
                                    "{})'}, builtins.str:'encoding': dict{}}, builtins.str:'/a': "
                                    "dict{builtins.str:'type': builtins.str:'Dataset', "
                                    "builtins.str:'sizes': dict{}, builtins.str:'data_vars': "
                                    "dict{}, builtins.str:'coords': dict{}, builtins.str:'attrs': "
                                    "dict{builtins.str:'chunked_with': builtins.str:'(({},), "
                                    "{})'}, builtins.str:'encoding': dict{}}, builtins.str:'/b': "
                                    "dict{builtins.str:'type': builtins.str:'Dataset', "
                                    "builtins.str:'sizes': dict{}, builtins.str:'data_vars': "
                                    "dict{}, builtins.str:'coords': dict{}, builtins.str:'attrs': "
                                    "dict{builtins.str:'x': builtins.int:1, "
                                    "builtins.str:'chunked_with': builtins.str:'(({},), {})'}, "
                                    "builtins.str:'encoding': dict{}}}}, builtins.str:'[([], "
                                    '({},), {}), ([], ({},), {}), ([], ({},), {}), ([], ({},), '
                                    "{})]', builtins.bool:True)",
 'dataset|only-groups|int': "list(raise builtins.AttributeError: 'int' object has no attribute "
                            "'items', builtins.str:'None', builtins.bool:True)",
 'tree|only-groups|int': "list(raise builtins.AttributeError: 'int' object has no attribute "
                         "'items', builtins.str:'None', builtins.bool:True)",
 'dataset-recorded|only-groups|int': "list(raise builtins.AttributeError: 'int' object has no "
                                     "attribute 'items', builtins.str:'[]', builtins.bool:True)",
 'tree-recorded|only-groups|int': "list(raise builtins.AttributeError: 'int' object has no "
                                  "attribute 'items', builtins.str:'[]', builtins.bool:True)",
 'dataset|only-groups|str': "list(raise builtins.AttributeError: 'str' object has no attribute "
                            "'items', builtins.str:'None', builtins.bool:True)",
 'tree|only-groups|str': "list(raise builtins.AttributeError: 'str' object has no attribute "
                         "'items', builtins.str:'None', builtins.bool:True)",
 'dataset-recorded|only-groups|str': "list(raise builtins.AttributeError: 'str' object has no "
                                     "attribute 'items', builtins.str:'[]', builtins.bool:True)",
 'tree-recorded|only-groups|str': "list(raise builtins.AttributeError: 'str' object has no "
                                  "attribute 'items', builtins.str:'[]', builtins.bool:True)",
 'dataset|only-groups|list': "list(raise builtins.AttributeError: 'list' object has no attribute "
                             "'items', builtins.str:'None', builtins.bool:True)",
 'tree|only-groups|list': "list(raise builtins.AttributeError: 'list' object has no attribute "
                          "'items', builtins.str:'None', builtins.bool:True)",
 'dataset-recorded|only-groups|list': "list(raise builtins.AttributeError: 'list' object has no "
                                      "attribute 'items', builtins.str:'[]', builtins.bool:True)",
 'tree-recorded|only-groups|list': "list(raise builtins.AttributeError: 'list' object has no "
                                   "attribute 'items', builtins.str:'[]', builtins.bool:True)",
 'dataset|only-groups|tuple-keys': "list(raise builtins.ImportError: chunk manager 'dask' is not "
                                   "available. Please make sure 'dask' is installed and "
                                   "importable., builtins.str:'None', builtins.bool:True)",
 'tree|only-groups|tuple-keys': "list(raise builtins.ImportError: chunk manager 'dask' is not "
                                "available. Please make sure 'dask' is installed and importable., "
                                "builtins.str:'None', builtins.bool:True)",
 'dataset-recorded|only-groups|tuple-keys': "list(dict{builtins.str:'type': "
                                            "builtins.str:'Dataset', builtins.str:'sizes': dict{}, "
                                            "builtins.str:'data_vars': dict{}, "
                                            "builtins.str:'coords': dict{}, builtins.str:'attrs': "
                                            "dict{builtins.str:'chunked_with': "
                                            "builtins.str:'(({},), {})'}, builtins.str:'encoding': "
                                            "dict{}}, builtins.str:'[([], ({},), {})]', "
                                            'builtins.bool:True)',
 'tree-recorded|only-groups|tuple-keys': "list(dict{builtins.str:'type': builtins.str:'DataTree', "
                                         "builtins.str:'name': builtins.NoneType:None, "
                                         "builtins.str:'paths': list(builtins.str:'/', "
                                         "builtins.str:'/a', builtins.str:'/b'), "
                                         "builtins.str:'nodes': dict{builtins.str:'/': "
                                         "dict{builtins.str:'type': builtins.str:'Dataset', "
                                         "builtins.str:'sizes': dict{}, builtins.str:'data_vars': "
                                         "dict{}, builtins.str:'coords': dict{}, "
                                         "builtins.str:'attrs': dict{builtins.str:'chunked_with': "
                                         "builtins.str:'(({},), {})'}, builtins.str:'encoding': "
                                         "dict{}}, builtins.str:'/a': dict{builtins.str:'type': "
                                         "builtins.str:'Dataset', builtins.str:'sizes': dict{}, "
                                         "builtins.str:'data_vars': dict{}, builtins.str:'coords': "
                                         "dict{}, builtins.str:'attrs': "
                                         "dict{builtins.str:'chunked_with': builtins.str:'(({},), "
                                         "{})'}, builtins.str:'encoding': dict{}}, "
                                         "builtins.str:'/b': dict{builtins.str:'type': "
                                         "builtins.str:'Dataset', builtins.str:'sizes': dict{}, "
                                         "builtins.str:'data_vars': dict{}, builtins.str:'coords': "
                                         "dict{}, builtins.str:'attrs': dict{builtins.str:'x': "
                                         "builtins.int:1, builtins.str:'chunked_with': "
                                         "builtins.str:'(({},), {})'}, builtins.str:'encoding': "
                                         "dict{}}}}, builtins.str:'[([], ({},), {}), ([], ({},), "
                                         "{}), ([], ({},), {}), ([], ({},), {})]', "
                                         'builtins.bool:True)',
 'dataset|named-root|none': "list(dict{builtins.str:'type': builtins.str:'Dataset', "
                            "builtins.str:'sizes': dict{builtins.str:'x': builtins.int:3}, "
                            "builtins.str:'data_vars': dict{builtins.str:'c': "
                            "dict{builtins.str:'dims': tuple(builtins.str:'x'), "
                            "builtins.str:'dtype': builtins.str:'int8', builtins.str:'attrs': "
                            "dict{builtins.str:'a': builtins.int:1}, builtins.str:'encoding': "
                            "dict{}, builtins.str:'data-type': builtins.str:'ndarray', "
                            "builtins.str:'values': ndarray[|i1|(3,)|010203]}}, "
                            "builtins.str:'coords': dict{}, builtins.str:'attrs': dict{}, "
                            "builtins.str:'encoding': dict{}}, builtins.str:'None', "
                            'builtins.bool:True)',
 'tree|named-root|none': "list(dict{builtins.str:'type': builtins.str:'DataTree', "
                         "builtins.str:'name': builtins.NoneType:None, builtins.str:'paths': "
                         "list(builtins.str:'/', builtins.str:'/sub'), builtins.str:'nodes': "
                         "dict{builtins.str:'/': dict{builtins.str:'type': builtins.str:'Dataset', "
                         "builtins.str:'sizes': dict{builtins.str:'x': builtins.int:3}, "
                         "builtins.str:'data_vars': dict{builtins.str:'c': "
                         "dict{builtins.str:'dims': tuple(builtins.str:'x'), builtins.str:'dtype': "
                         "builtins.str:'int8', builtins.str:'attrs': dict{builtins.str:'a': "
                         "builtins.int:1}, builtins.str:'encoding': dict{}, "
                         "builtins.str:'data-type': builtins.str:'ndarray', builtins.str:'values': "
                         "ndarray[|i1|(3,)|010203]}}, builtins.str:'coords': dict{}, "
                         "builtins.str:'attrs': dict{}, builtins.str:'encoding': dict{}}, "
                         "builtins.str:'/sub': dict{builtins.str:'type': builtins.str:'Dataset', "
                         "builtins.str:'sizes': dict{builtins.str:'y': builtins.int:4}, "
                         "builtins.str:'data_vars': dict{builtins.str:'e': "
                         "dict{builtins.str:'dims': tuple(builtins.str:'y'), builtins.str:'dtype': "
                         "builtins.str:'float64', builtins.str:'attrs': dict{}, "
                         "builtins.str:'encoding': dict{}, builtins.str:'data-type': "
                         "builtins.str:'ndarray', builtins.str:'values': "
                         'ndarray[<f8|(4,)|000000000000e03f000000000000f83f00000000000004400000000000000c40]}}, '
                         "builtins.str:'coords': dict{}, builtins.str:'attrs': dict{}, "
                         "builtins.str:'encoding': dict{}}}}, builtins.str:'None', "
                         'builtins.bool:True)',
 'dataset|named-root|empty': "list(raise builtins.ImportError: chunk manager 'dask' is not "
                             "available. Please make sure 'dask' is installed and importable., "
                             "builtins.str:'None', builtins.bool:True)",
 'tree|named-root|empty': "list(raise builtins.ImportError: chunk manager 'dask' is not available. "
                          "Please make sure 'dask' is installed and importable., "
                          "builtins.str:'None', builtins.bool:True)",
 'dataset-recorded|named-root|empty': "list(dict{builtins.str:'type': builtins.str:'Dataset', "
                                      "builtins.str:'sizes': dict{builtins.str:'x': "
                                      "builtins.int:3}, builtins.str:'data_vars': "
                                      "dict{builtins.str:'c': dict{builtins.str:'dims': "
                                      "tuple(builtins.str:'x'), builtins.str:'dtype': "
                                      "builtins.str:'int8', builtins.str:'attrs': "
                                      "dict{builtins.str:'a': builtins.int:1}, "
                                      "builtins.str:'encoding': dict{}, builtins.str:'data-type': "
                                      "builtins.str:'ndarray', builtins.str:'values': "
                                      "ndarray[|i1|(3,)|010203]}}, builtins.str:'coords': dict{}, "
                                      "builtins.str:'attrs': dict{builtins.str:'chunked_with': "
                                      "builtins.str:'(({},), {})'}, builtins.str:'encoding': "
                                      'dict{}}, builtins.str:"[([\'c\'], ({},), {})]", '
                                      'builtins.bool:True)',
 'tree-recorded|named-root|empty': "list(dict{builtins.str:'type': builtins.str:'DataTree', "
                                   "builtins.str:'name': builtins.NoneType:None, "
                                   "builtins.str:'paths': list(builtins.str:'/', "
                                   "builtins.str:'/sub'), builtins.str:'nodes': "
                                   "dict{builtins.str:'/': dict{builtins.str:'type': "
                                   "builtins.str:'Dataset', builtins.str:'sizes': "
                                   "dict{builtins.str:'x': builtins.int:3}, "
                                   "builtins.str:'data_vars': dict{builtins.str:'c': "
                                   "dict{builtins.str:'dims': tuple(builtins.str:'x'), "
                                   "builtins.str:'dtype': builtins.str:'int8', "
                                   "builtins.str:'attrs': dict{builtins.str:'a': builtins.int:1}, "
                                   "builtins.str:'encoding': dict{}, builtins.str:'data-type': "
                                   "builtins.str:'ndarray', builtins.str:'values': "
                                   "ndarray[|i1|(3,)|010203]}}, builtins.str:'coords': dict{}, "
                                   "builtins.str:'attrs': dict{builtins.str:'chunked_with': "
                                   "builtins.str:'(({},), {})'}, builtins.str:'encoding': dict{}}, "
                                   "builtins.str:'/sub': dict{builtins.str:'type': "
                                   "builtins.str:'Dataset', builtins.str:'sizes': "
                                   "dict{builtins.str:'y': builtins.int:4}, "
                                   "builtins.str:'data_vars': dict{builtins.str:'e': "
                                   "dict{builtins.str:'dims': tuple(builtins.str:'y'), "
                                   "builtins.str:'dtype': builtins.str:'float64', "
                                   "builtins.str:'attrs': dict{}, builtins.str:'encoding': dict{}, "
                                   "builtins.str:'data-type': builtins.str:'ndarray', "
                                   "builtins.str:'values': "
                                   'ndarray[<f8|(4,)|000000000000e03f000000000000f83f00000000000004400000000000000c40]}}, '
                                   "builtins.str:'coords': dict{}, builtins.str:'attrs': "
                                   "dict{builtins.str:'chunked_with': builtins.str:'(({},), {})'}, "
                                   'builtins.str:\'encoding\': dict{}}}}, builtins.str:"[([\'c\'], '
                                   '({},), {}), ([\'c\'], ({},), {}), ([\'e\'], ({},), {})]", '
                                   'builtins.bool:True)',
 'dataset|named-root|x': "list(raise builtins.ImportError: chunk manager 'dask' is not available. "
                         "Please make sure 'dask' is installed and importable., "
                         "builtins.str:'None', builtins.bool:True)",
 'tree|named-root|x': "list(raise builtins.ImportError: chunk manager 'dask' is not available. "
                      "Please make sure 'dask' is installed and importable., builtins.str:'None', "
                      'builtins.bool:True)',
 'dataset-recorded|named-root|x': "list(dict{builtins.str:'type': builtins.str:'Dataset', "
                                  "builtins.str:'sizes': dict{builtins.str:'x': builtins.int:3}, "
                                  "builtins.str:'data_vars': dict{builtins.str:'c': "
                                  "dict{builtins.str:'dims': tuple(builtins.str:'x'), "
                                  "builtins.str:'dtype': builtins.str:'int8', "
                                  "builtins.str:'attrs': dict{builtins.str:'a': builtins.int:1}, "
                                  "builtins.str:'encoding': dict{}, builtins.str:'data-type': "
                                  "builtins.str:'ndarray', builtins.str:'values': "
                                  "ndarray[|i1|(3,)|010203]}}, builtins.str:'coords': dict{}, "
                                  "builtins.str:'attrs': dict{builtins.str:'chunked_with': "
                                  'builtins.str:"(({\'x\': 1},), {})"}, builtins.str:\'encoding\': '
                                  'dict{}}, builtins.str:"[([\'c\'], ({\'x\': 1},), {})]", '
                                  'builtins.bool:True)',
 'tree-recorded|named-root|x': "list(dict{builtins.str:'type': builtins.str:'DataTree', "
                               "builtins.str:'name': builtins.NoneType:None, builtins.str:'paths': "
                               "list(builtins.str:'/', builtins.str:'/sub'), builtins.str:'nodes': "
                               "dict{builtins.str:'/': dict{builtins.str:'type': "
                               "builtins.str:'Dataset', builtins.str:'sizes': "
                               "dict{builtins.str:'x': builtins.int:3}, builtins.str:'data_vars': "
                               "dict{builtins.str:'c': dict{builtins.str:'dims': "
                               "tuple(builtins.str:'x'), builtins.str:'dtype': "
                               "builtins.str:'int8', builtins.str:'attrs': dict{builtins.str:'a': "
                               "builtins.int:1}, builtins.str:'encoding': dict{}, "
                               "builtins.str:'data-type': builtins.str:'ndarray', "
                               "builtins.str:'values': ndarray[|i1|(3,)|010203]}}, "
                               "builtins.str:'coords': dict{}, builtins.str:'attrs': "
                               'dict{builtins.str:\'chunked_with\': builtins.str:"(({\'x\': 1},), '
                               '{})"}, builtins.str:\'encoding\': dict{}}, builtins.str:\'/sub\': '
                               "dict{builtins.str:'type': builtins.str:'Dataset', "
                               "builtins.str:'sizes': dict{builtins.str:'y': builtins.int:4}, "
                               "builtins.str:'data_vars': dict{builtins.str:'e': "
                               "dict{builtins.str:'dims': tuple(builtins.str:'y'), "
                               "builtins.str:'dtype': builtins.str:'float64', "
                               "builtins.str:'attrs': dict{}, builtins.str:'encoding': dict{}, "
                               "builtins.str:'data-type': builtins.str:'ndarray', "
                               "builtins.str:'values': "
                               'ndarray[<f8|(4,)|000000000000e03f000000000000f83f00000000000004400000000000000c40]}}, '
                               "builtins.str:'coords': dict{}, builtins.str:'attrs': "
                               "dict{builtins.str:'chunked_with': builtins.str:'(({},), {})'}, "
                               'builtins.str:\'encoding\': dict{}}}}, builtins.str:"[([\'c\'], '
                               "({'x': 1},), {}), (['c'], ({'x': 1},), {}), (['e'], ({},), "
                               '{})]", builtins.bool:True)',
 'dataset|named-root|xy': "list(raise builtins.ImportError: chunk manager 'dask' is not available. "
                          "Please make sure 'dask' is installed and importable., "
                          "builtins.str:'None', builtins.bool:True)",
 'tree|named-root|xy': "list(raise builtins.ImportError: chunk manager 'dask' is not available. "
                       "Please make sure 'dask' is installed and importable., builtins.str:'None', "
                       'builtins.bool:True)',
 'dataset-recorded|named-root|xy': "list(dict{builtins.str:'type': builtins.str:'Dataset', "
                                   "builtins.str:'sizes': dict{builtins.str:'x': builtins.int:3}, "
                                   "builtins.str:'data_vars': dict{builtins.str:'c': "
                                   "dict{builtins.str:'dims': tuple(builtins.str:'x'), "
                                   "builtins.str:'dtype': builtins.str:'int8', "
                                   "builtins.str:'attrs': dict{builtins.str:'a': builtins.int:1}, "
                                   "builtins.str:'encoding': dict{}, builtins.str:'data-type': "
                                   "builtins.str:'ndarray', builtins.str:'values': "
                                   "ndarray[|i1|(3,)|010203]}}, builtins.str:'coords': dict{}, "
                                   "builtins.str:'attrs': dict{builtins.str:'chunked_with': "
                                   'builtins.str:"(({\'x\': 1},), {})"}, '
                                   'builtins.str:\'encoding\': dict{}}, builtins.str:"[([\'c\'], '
                                   '({\'x\': 1},), {})]", builtins.bool:True)',
 'tree-recorded|named-root|xy': "list(dict{builtins.str:'type': builtins.str:'DataTree', "
                                "builtins.str:'name': builtins.NoneType:None, "
                                "builtins.str:'paths': list(builtins.str:'/', "
                                "builtins.str:'/sub'), builtins.str:'nodes': "
                                "dict{builtins.str:'/': dict{builtins.str:'type': "
                                "builtins.str:'Dataset', builtins.str:'sizes': "
                                "dict{builtins.str:'x': builtins.int:3}, builtins.str:'data_vars': "
                                "dict{builtins.str:'c': dict{builtins.str:'dims': "
                                "tuple(builtins.str:'x'), builtins.str:'dtype': "
                                "builtins.str:'int8', builtins.str:'attrs': dict{builtins.str:'a': "
                                "builtins.int:1}, builtins.str:'encoding': dict{}, "
                                "builtins.str:'data-type': builtins.str:'ndarray', "
                                "builtins.str:'values': ndarray[|i1|(3,)|010203]}}, "
                                "builtins.str:'coords': dict{}, builtins.str:'attrs': "
                                'dict{builtins.str:\'chunked_with\': builtins.str:"(({\'x\': 1},), '
                                '{})"}, builtins.str:\'encoding\': dict{}}, builtins.str:\'/sub\': '
                                "dict{builtins.str:'type': builtins.str:'Dataset', "
                                "builtins.str:'sizes': dict{builtins.str:'y': builtins.int:4}, "
                                "builtins.str:'data_vars': dict{builtins.str:'e': "
                                "dict{builtins.str:'dims': tuple(builtins.str:'y'), "
                                "builtins.str:'dtype': builtins.str:'float64', "
                                "builtins.str:'attrs': dict{}, builtins.str:'encoding': dict{}, "
                                "builtins.str:'data-type': builtins.str:'ndarray', "
                                "builtins.str:'values': "
                                'ndarray[<f8|(4,)|000000000000e03f000000000000f83f00000000000004400000000000000c40]}}, '
                                "builtins.str:'coords': dict{}, builtins.str:'attrs': "
                                'dict{builtins.str:\'chunked_with\': builtins.str:"(({\'y\': 2},), '
                                '{})"}, builtins.str:\'encoding\': dict{}}}}, '
                                'builtins.str:"[([\'c\'], ({\'x\': 1},), {}), ([\'c\'], ({\'x\': '
                                '1},), {}), ([\'e\'], ({\'y\': 2},), {})]", builtins.bool:True)',
 'dataset|named-root|yx': "list(raise builtins.ImportError: chunk manager 'dask' is not available. "
                          "Please make sure 'dask' is installed and importable., "
                          "builtins.str:'None', builtins.bool:True)",
 'tree|named-root|yx': "list(raise builtins.ImportError: chunk manager 'dask' is not available. "
                       "Please make sure 'dask' is installed and importable., builtins.str:'None', "
                       'builtins.bool:True)',
 'dataset-recorded|named-root|yx': "list(dict{builtins.str:'type': builtins.str:'Dataset', "
                                   "builtins.str:'sizes': dict{builtins.str:'x': builtins.int:3}, "
                                   "builtins.str:'data_vars': dict{builtins.str:'c': "
                                   "dict{builtins.str:'dims': tuple(builtins.str:'x'), "
                                   "builtins.str:'dtype': builtins.str:'int8', "
                                   "builtins.str:'attrs': dict{builtins.str:'a': builtins.int:1}, "
                                   "builtins.str:'encoding': dict{}, builtins.str:'data-type': "
                                   "builtins.str:'ndarray', builtins.str:'values': "
                                   "ndarray[|i1|(3,)|010203]}}, builtins.str:'coords': dict{}, "
                                   "builtins.str:'attrs': dict{builtins.str:'chunked_with': "
                                   'builtins.str:"(({\'x\': -1},), {})"}, '
                                   'builtins.str:\'encoding\': dict{}}, builtins.str:"[([\'c\'], '
                                   '({\'x\': -1},), {})]", builtins.bool:True)',
 'tree-recorded|named-root|yx': "list(dict{builtins.str:'type': builtins.str:'DataTree', "
                                "builtins.str:'name': builtins.NoneType:None, "
                                "builtins.str:'paths': list(builtins.str:'/', "
                                "builtins.str:'/sub'), builtins.str:'nodes': "
                                "dict{builtins.str:'/': dict{builtins.str:'type': "
                                "builtins.str:'Dataset', builtins.str:'sizes': "
                                "dict{builtins.str:'x': builtins.int:3}, builtins.str:'data_vars': "
                                "dict{builtins.str:'c': dict{builtins.str:'dims': "
                                "tuple(builtins.str:'x'), builtins.str:'dtype': "
                                "builtins.str:'int8', builtins.str:'attrs': dict{builtins.str:'a': "
                                "builtins.int:1}, builtins.str:'encoding': dict{}, "
                                "builtins.str:'data-type': builtins.str:'ndarray', "
                                "builtins.str:'values': ndarray[|i1|(3,)|010203]}}, "
                                "builtins.str:'coords': dict{}, builtins.str:'attrs': "
                                'dict{builtins.str:\'chunked_with\': builtins.str:"(({\'x\': '
                                '-1},), {})"}, builtins.str:\'encoding\': dict{}}, '
                                "builtins.str:'/sub': dict{builtins.str:'type': "
                                "builtins.str:'Dataset', builtins.str:'sizes': "
                                "dict{builtins.str:'y': builtins.int:4}, builtins.str:'data_vars': "
                                "dict{builtins.str:'e': dict{builtins.str:'dims': "
                                "tuple(builtins.str:'y'), builtins.str:'dtype': "
                                "builtins.str:'float64', builtins.str:'attrs': dict{}, "
                                "builtins.str:'encoding': dict{}, builtins.str:'data-type': "
                                "builtins.str:'ndarray', builtins.str:'values': "
                                'ndarray[<f8|(4,)|000000000000e03f000000000000f83f00000000000004400000000000000c40]}}, '
                                "builtins.str:'coords': dict{}, builtins.str:'attrs': "
                                'dict{builtins.str:\'chunked_with\': builtins.str:"(({\'y\': 2},), '
                                '{})"}, builtins.str:\'encoding\': dict{}}}}, '
                                'builtins.str:"[([\'c\'], ({\'x\': -1},), {}), ([\'c\'], ({\'x\': '
                                '-1},), {}), ([\'e\'], ({\'y\': 2},), {})]", builtins.bool:True)',
 'dataset|named-root|unknown': "list(raise builtins.ImportError: chunk manager 'dask' is not "
                               "available. Please make sure 'dask' is installed and importable., "
                               "builtins.str:'None', builtins.bool:True)",
 'tree|named-root|unknown': "list(raise builtins.ImportError: chunk manager 'dask' is not "
                            "available. Please make sure 'dask' is installed and importable., "
                            "builtins.str:'None', builtins.bool:True)",
 'dataset-recorded|named-root|unknown': "list(dict{builtins.str:'type': builtins.str:'Dataset', "
                                        "builtins.str:'sizes': dict{builtins.str:'x': "
                                        "builtins.int:3}, builtins.str:'data_vars': "
                                        "dict{builtins.str:'c': dict{builtins.str:'dims': "
                                        "tuple(builtins.str:'x'), builtins.str:'dtype': "
                                        "builtins.str:'int8', builtins.str:'attrs': "
                                        "dict{builtins.str:'a': builtins.int:1}, "
                                        "builtins.str:'encoding': dict{}, "
                                        "builtins.str:'data-type': builtins.str:'ndarray', "
                                        "builtins.str:'values': ndarray[|i1|(3,)|010203]}}, "
                                        "builtins.str:'coords': dict{}, builtins.str:'attrs': "
                                        "dict{builtins.str:'chunked_with': builtins.str:'(({},), "
                                        "{})'}, builtins.str:'encoding': dict{}}, "
                                        'builtins.str:"[([\'c\'], ({},), {})]", '
                                        'builtins.bool:True)',
 'tree-recorded|named-root|unknown': "list(dict{builtins.str:'type': builtins.str:'DataTree', "
                                     "builtins.str:'name': builtins.NoneType:None, "
                                     "builtins.str:'paths': list(builtins.str:'/', "
                                     "builtins.str:'/sub'), builtins.str:'nodes': "
                                     "dict{builtins.str:'/': dict{builtins.str:'type': "
                                     "builtins.str:'Dataset', builtins.str:'sizes': "
                                     "dict{builtins.str:'x': builtins.int:3}, "
                                     "builtins.str:'data_vars': dict{builtins.str:'c': "
                                     "dict{builtins.str:'dims': tuple(builtins.str:'x'), "
                                     "builtins.str:'dtype': builtins.str:'int8', "
                                     "builtins.str:'attrs': dict{builtins.str:'a': "
                                     "builtins.int:1}, builtins.str:'encoding': dict{}, "
                                     "builtins.str:'data-type': builtins.str:'ndarray', "
                                     "builtins.str:'values': ndarray[|i1|(3,)|010203]}}, "
                                     "builtins.str:'coords': dict{}, builtins.str:'attrs': "
                                     "dict{builtins.str:'chunked_with': builtins.str:'(({},), "
                                     "{})'}, builtins.str:'encoding': dict{}}, "
                                     "builtins.str:'/sub': dict{builtins.str:'type': "
                                     "builtins.str:'Dataset', builtins.str:'sizes': "
                                     "dict{builtins.str:'y': builtins.int:4}, "
                                     "builtins.str:'data_vars': dict{builtins.str:'e': "
                                     "dict{builtins.str:'dims': tuple(builtins.str:'y'), "
                                     "builtins.str:'dtype': builtins.str:'float64', "
                                     "builtins.str:'attrs': dict{}, builtins.str:'encoding': "
                                     "dict{}, builtins.str:'data-type': builtins.str:'ndarray', "
                                     "builtins.str:'values': "
                                     'ndarray[<f8|(4,)|000000000000e03f000000000000f83f00000000000004400000000000000c40]}}, '
                                     "builtins.str:'coords': dict{}, builtins.str:'attrs': "
                                     "dict{builtins.str:'chunked_with': builtins.str:'(({},), "
                                     "{})'}, builtins.str:'encoding': dict{}}}}, "
                                     'builtins.str:"[([\'c\'], ({},), {}), ([\'c\'], ({},), {}), '
                                     '([\'e\'], ({},), {})]", builtins.bool:True)',
 'dataset|named-root|mixed': "list(raise builtins.ImportError: chunk manager 'dask' is not "
                             "available. Please make sure 'dask' is installed and importable., "
                             "builtins.str:'None', builtins.bool:True)",
 'tree|named-root|mixed': "list(raise builtins.ImportError: chunk manager 'dask' is not available. "
                          "Please make sure 'dask' is installed and importable., "
                          "builtins.str:'None', builtins.bool:True)",
 'dataset-recorded|named-root|mixed': "list(dict{builtins.str:'type': builtins.str:'Dataset', "
                                      "builtins.str:'sizes': dict{builtins.str:'x': "
                                      "builtins.int:3}, builtins.str:'data_vars': "
                                      "dict{builtins.str:'c': dict{builtins.str:'dims': "
                                      "tuple(builtins.str:'x'), builtins.str:'dtype': "
                                      "builtins.str:'int8', builtins.str:'attrs': "
                                      "dict{builtins.str:'a': builtins.int:1}, "
                                      "builtins.str:'encoding': dict{}, builtins.str:'data-type': "
                                      "builtins.str:'ndarray', builtins.str:'values': "
                                      "ndarray[|i1|(3,)|010203]}}, builtins.str:'coords': dict{}, "
                                      "builtins.str:'attrs': dict{builtins.str:'chunked_with': "
                                      'builtins.str:"(({\'x\': \'auto\'},), {})"}, '
                                      "builtins.str:'encoding': dict{}}, "
                                      'builtins.str:"[([\'c\'], ({\'x\': \'auto\'},), {})]", '
                                      'builtins.bool:True)',
 'tree-recorded|named-root|mixed': "list(dict{builtins.str:'type': builtins.str:'DataTree', "
                                   "builtins.str:'name': builtins.NoneType:None, "
                                   "builtins.str:'paths': list(builtins.str:'/', "
                                   "builtins.str:'/sub'), builtins.str:'nodes': "
                                   "dict{builtins.str:'/': dict{builtins.str:'type': "
                                   "builtins.str:'Dataset', builtins.str:'sizes': "
                                   "dict{builtins.str:'x': builtins.int:3}, "
                                   "builtins.str:'data_vars': dict{builtins.str:'c': "
                                   "dict{builtins.str:'dims': tuple(builtins.str:'x'), "
                                   "builtins.str:'dtype': builtins.str:'int8', "
                                   "builtins.str:'attrs': dict{builtins.str:'a': builtins.int:1}, "
                                   "builtins.str:'encoding': dict{}, builtins.str:'data-type': "
                                   "builtins.str:'ndarray', builtins.str:'values': "
                                   "ndarray[|i1|(3,)|010203]}}, builtins.str:'coords': dict{}, "
                                   "builtins.str:'attrs': dict{builtins.str:'chunked_with': "
                                   'builtins.str:"(({\'x\': \'auto\'},), {})"}, '
                                   "builtins.str:'encoding': dict{}}, builtins.str:'/sub': "
                                   "dict{builtins.str:'type': builtins.str:'Dataset', "
                                   "builtins.str:'sizes': dict{builtins.str:'y': builtins.int:4}, "
                                   "builtins.str:'data_vars': dict{builtins.str:'e': "
                                   "dict{builtins.str:'dims': tuple(builtins.str:'y'), "
                                   "builtins.str:'dtype': builtins.str:'float64', "
                                   "builtins.str:'attrs': dict{}, builtins.str:'encoding': dict{}, "
                                   "builtins.str:'data-type': builtins.str:'ndarray', "
                                   "builtins.str:'values': "
                                   'ndarray[<f8|(4,)|000000000000e03f000000000000f83f00000000000004400000000000000c40]}}, '
                                   "builtins.str:'coords': dict{}, builtins.str:'attrs': "
                                   "dict{builtins.str:'chunked_with': builtins.str:'(({},), {})'}, "
                                   'builtins.str:\'encoding\': dict{}}}}, builtins.str:"[([\'c\'], '
                                   "({'x': 'auto'},), {}), (['c'], ({'x': 'auto'},), {}), (['e'], "
                                   '({},), {})]", builtins.bool:True)',
 'dataset|named-root|int': "list(raise builtins.AttributeError: 'int' object has no attribute "
                           "'items', builtins.str:'None', builtins.bool:True)",
 'tree|named-root|int': "list(raise builtins.AttributeError: 'int' object has no attribute "
                        "'items', builtins.str:'None', builtins.bool:True)",
 'dataset-recorded|named-root|int': "list(raise builtins.AttributeError: 'int' object has no "
                                    "attribute 'items', builtins.str:'[]', builtins.bool:True)",
 'tree-recorded|named-root|int': "list(raise builtins.AttributeError: 'int' object has no "
                                 "attribute 'items', builtins.str:'[]', builtins.bool:True)",
 'dataset|named-root|str': "list(raise builtins.AttributeError: 'str' object has no attribute "
                           "'items', builtins.str:'None', builtins.bool:True)",
 'tree|named-root|str': "list(raise builtins.AttributeError: 'str' object has no attribute "
                        "'items', builtins.str:'None', builtins.bool:True)",
 'dataset-recorded|named-root|str': "list(raise builtins.AttributeError: 'str' object has no "
                                    "attribute 'items', builtins.str:'[]', builtins.bool:True)",
 'tree-recorded|named-root|str': "list(raise builtins.AttributeError: 'str' object has no "
                                 "attribute 'items', builtins.str:'[]', builtins.bool:True)",
 'dataset|named-root|list': "list(raise builtins.AttributeError: 'list' object has no attribute "
                            "'items', builtins.str:'None', builtins.bool:True)",
 'tree|named-root|list': "list(raise builtins.AttributeError: 'list' object has no attribute "
                         "'items', builtins.str:'None', builtins.bool:True)",
 'dataset-recorded|named-root|list': "list(raise builtins.AttributeError: 'list' object has no "
                                     "attribute 'items', builtins.str:'[]', builtins.bool:True)",
 'tree-recorded|named-root|list': "list(raise builtins.AttributeError: 'list' object has no "
                                  "attribute 'items', builtins.str:'[]', builtins.bool:True)",
 'dataset|named-root|tuple-keys': "list(raise builtins.ImportError: chunk manager 'dask' is not "
                                  "available. Please make sure 'dask' is installed and "
                                  "importable., builtins.str:'None', builtins.bool:True)",
 'tree|named-root|tuple-keys': "list(raise builtins.ImportError: chunk manager 'dask' is not "
                               "available. Please make sure 'dask' is installed and importable., "
                               "builtins.str:'None', builtins.bool:True)",
 'dataset-recorded|named-root|tuple-keys': "list(dict{builtins.str:'type': builtins.str:'Dataset', "
                                           "builtins.str:'sizes': dict{builtins.str:'x': "
                                           "builtins.int:3}, builtins.str:'data_vars': "
                                           "dict{builtins.str:'c': dict{builtins.str:'dims': "
                                           "tuple(builtins.str:'x'), builtins.str:'dtype': "
                                           "builtins.str:'int8', builtins.str:'attrs': "
                                           "dict{builtins.str:'a': builtins.int:1}, "
                                           "builtins.str:'encoding': dict{}, "
                                           "builtins.str:'data-type': builtins.str:'ndarray', "
                                           "builtins.str:'values': ndarray[|i1|(3,)|010203]}}, "
                                           "builtins.str:'coords': dict{}, builtins.str:'attrs': "
                                           "dict{builtins.str:'chunked_with': "
                                           "builtins.str:'(({},), {})'}, builtins.str:'encoding': "
                                           'dict{}}, builtins.str:"[([\'c\'], ({},), {})]", '
                                           'builtins.bool:True)',
 'tree-recorded|named-root|tuple-keys': "list(dict{builtins.str:'type': builtins.str:'DataTree', "
                                        "builtins.str:'name': builtins.NoneType:None, "
                                        "builtins.str:'paths': list(builtins.str:'/', "
                                        "builtins.str:'/sub'), builtins.str:'nodes': "
                                        "dict{builtins.str:'/': dict{builtins.str:'type': "
                                        "builtins.str:'Dataset', builtins.str:'sizes': "
                                        "dict{builtins.str:'x': builtins.int:3}, "
                                        "builtins.str:'data_vars': dict{builtins.str:'c': "
                                        "dict{builtins.str:'dims': tuple(builtins.str:'x'), "
                                        "builtins.str:'dtype': builtins.str:'int8', "
                                        "builtins.str:'attrs': dict{builtins.str:'a': "
                                        "builtins.int:1}, builtins.str:'encoding': dict{}, "
                                        "builtins.str:'data-type': builtins.str:'ndarray', "
                                        "builtins.str:'values': ndarray[|i1|(3,)|010203]}}, "
                                        "builtins.str:'coords': dict{}, builtins.str:'attrs': "
                                        "dict{builtins.str:'chunked_with': builtins.str:'(({},), "
                                        "{})'}, builtins.str:'encoding': dict{}}, "
                                        "builtins.str:'/sub': dict{builtins.str:'type': "
                                        "builtins.str:'Dataset', builtins.str:'sizes': "
                                        "dict{builtins.str:'y': builtins.int:4}, "
                                        "builtins.str:'data_vars': dict{builtins.str:'e': "
                                        "dict{builtins.str:'dims': tuple(builtins.str:'y'), "
                                        "builtins.str:'dtype': builtins.str:'float64', "
                                        "builtins.str:'attrs': dict{}, builtins.str:'encoding': "
                                        "dict{}, builtins.str:'data-type': builtins.str:'ndarray', "
                                        "builtins.str:'values': "
                                        'ndarray[<f8|(4,)|000000000000e03f000000000000f83f00000000000004400000000000000c40]}}, '
                                        "builtins.str:'coords': dict{}, builtins.str:'attrs': "
                                        "dict{builtins.str:'chunked_with': builtins.str:'(({},), "
                                        "{})'}, builtins.str:'encoding': dict{}}}}, "
                                        'builtins.str:"[([\'c\'], ({},), {}), ([\'c\'], ({},), '
                                        '{}), ([\'e\'], ({},), {})]", builtins.bool:True)',
 'dataset|relative-root|none': "list(dict{builtins.str:'type': builtins.str:'Dataset', "
                               "builtins.str:'sizes': dict{builtins.str:'x': builtins.int:3}, "
                               "builtins.str:'data_vars': dict{builtins.str:'c': "
                               "dict{builtins.str:'dims': tuple(builtins.str:'x'), "
                               "builtins.str:'dtype': builtins.str:'int8', builtins.str:'attrs': "
                               "dict{builtins.str:'a': builtins.int:1}, builtins.str:'encoding': "
                               "dict{}, builtins.str:'data-type': builtins.str:'ndarray', "
                               "builtins.str:'values': ndarray[|i1|(3,)|010203]}}, "
                               "builtins.str:'coords': dict{}, builtins.str:'attrs': dict{}, "
                               "builtins.str:'encoding': dict{}}, builtins.str:'None', "
                               'builtins.bool:True)',
 'tree|relative-root|none': "list(dict{builtins.str:'type': builtins.str:'DataTree', "
                            "builtins.str:'name': builtins.NoneType:None, builtins.str:'paths': "
                            "list(builtins.str:'/', builtins.str:'/abc', builtins.str:'/abc/sub'), "
                            "builtins.str:'nodes': dict{builtins.str:'/': "
                            "dict{builtins.str:'type': builtins.str:'Dataset', "
                            "builtins.str:'sizes': dict{builtins.str:'x': builtins.int:3}, "
                            "builtins.str:'data_vars': dict{builtins.str:'c': "
                            "dict{builtins.str:'dims': tuple(builtins.str:'x'), "
                            "builtins.str:'dtype': builtins.str:'int8', builtins.str:'attrs': "
                            "dict{builtins.str:'a': builtins.int:1}, builtins.str:'encoding': "
                            "dict{}, builtins.str:'data-type': builtins.str:'ndarray', "
                            "builtins.str:'values': ndarray[|i1|(3,)|010203]}}, "
                            "builtins.str:'coords': dict{}, builtins.str:'attrs': dict{}, "
                            "builtins.str:'encoding': dict{}}, builtins.str:'/abc': "
                            "dict{builtins.str:'type': builtins.str:'Dataset', "
                            "builtins.str:'sizes': dict{builtins.str:'x': builtins.int:3}, "
                            "builtins.str:'data_vars': dict{builtins.str:'c': "
                            "dict{builtins.str:'dims': tuple(builtins.str:'x'), "
                            "builtins.str:'dtype': builtins.str:'int8', builtins.str:'attrs': "
                            "dict{builtins.str:'a': builtins.int:1}, builtins.str:'encoding': "
                            "dict{}, builtins.str:'data-type': builtins.str:'ndarray', "
                            "builtins.str:'values': ndarray[|i1|(3,)|010203]}}, "
                            "builtins.str:'coords': dict{}, builtins.str:'attrs': dict{}, "
                            "builtins.str:'encoding': dict{}}, builtins.str:'/abc/sub': "
                            "dict{builtins.str:'type': builtins.str:'Dataset', "
                            "builtins.str:'sizes': dict{builtins.str:'y': builtins.int:4}, "
                            "builtins.str:'data_vars': dict{builtins.str:'e': "
                            "dict{builtins.str:'dims': tuple(builtins.str:'y'), "
                            "builtins.str:'dtype': builtins.str:'float64', builtins.str:'attrs': "
                            "dict{}, builtins.str:'encoding': dict{}, builtins.str:'data-type': "
                            "builtins.str:'ndarray', builtins.str:'values': "
                            'ndarray[<f8|(4,)|000000000000e03f000000000000f83f00000000000004400000000000000c40]}}, '
                            "builtins.str:'coords': dict{}, builtins.str:'attrs': dict{}, "
                            "builtins.str:'encoding': dict{}}}}, builtins.str:'None', "
                            'builtins.bool:True)',
 'dataset|relative-root|empty': "list(raise builtins.ImportError: chunk manager 'dask' is not "
                                "available. Please make sure 'dask' is installed and importable., "
                                "builtins.str:'None', builtins.bool:True)",
 'tree|relative-root|empty': "list(raise builtins.ImportError: chunk manager 'dask' is not "
                             "available. Please make sure 'dask' is installed and importable., "
                             "builtins.str:'None', builtins.bool:True)",
 'dataset-recorded|relative-root|empty': "list(dict{builtins.str:'type': builtins.str:'Dataset', "
                                         "builtins.str:'sizes': dict{builtins.str:'x': "
                                         "builtins.int:3}, builtins.str:'data_vars': "
                                         "dict{builtins.str:'c': dict{builtins.str:'dims': "
                                         "tuple(builtins.str:'x'), builtins.str:'dtype': "
                                         "builtins.str:'int8', builtins.str:'attrs': "
                                         "dict{builtins.str:'a': builtins.int:1}, "
                                         "builtins.str:'encoding': dict{}, "
                                         "builtins.str:'data-type': builtins.str:'ndarray', "
                                         "builtins.str:'values': ndarray[|i1|(3,)|010203]}}, "
                                         "builtins.str:'coords': dict{}, builtins.str:'attrs': "
                                         "dict{builtins.str:'chunked_with': builtins.str:'(({},), "
                                         "{})'}, builtins.str:'encoding': dict{}}, "
                                         'builtins.str:"[([\'c\'], ({},), {})]", '
                                         'builtins.bool:True)',
 'tree-recorded|relative-root|empty': "list(dict{builtins.str:'type': builtins.str:'DataTree', "
                                      "builtins.str:'name': builtins.NoneType:None, "
                                      "builtins.str:'paths': list(builtins.str:'/', "
                                      "builtins.str:'/abc', builtins.str:'/abc/sub'), "
                                      "builtins.str:'nodes': dict{builtins.str:'/': "
                                      "dict{builtins.str:'type': builtins.str:'Dataset', "
                                      "builtins.str:'sizes': dict{builtins.str:'x': "
                                      "builtins.int:3}, builtins.str:'data_vars': "
                                      "dict{builtins.str:'c': dict{builtins.str:'dims': "
                                      "tuple(builtins.str:'x'), builtins.str:'dtype': "
                                      "builtins.str:'int8', builtins.str:'attrs': "
                                      "dict{builtins.str:'a': builtins.int:1}, "
                                      "builtins.str:'encoding': dict{}, builtins.str:'data-type': "
                                      "builtins.str:'ndarray', builtins.str:'values': "
                                      "ndarray[|i1|(3,)|010203]}}, builtins.str:'coords': dict{}, "
                                      "builtins.str:'attrs': dict{builtins.str:'chunked_with': "
                                      "builtins.str:'(({},), {})'}, builtins.str:'encoding': "
                                      "dict{}}, builtins.str:'/abc': dict{builtins.str:'type': "
                                      "builtins.str:'Dataset', builtins.str:'sizes': "
                                      "dict{builtins.str:'x': builtins.int:3}, "
                                      "builtins.str:'data_vars': dict{builtins.str:'c': "
                                      "dict{builtins.str:'dims': tuple(builtins.str:'x'), "
                                      "builtins.str:'dtype': builtins.str:'int8', "
                                      "builtins.str:'attrs': dict{builtins.str:'a': "
                                      "builtins.int:1}, builtins.str:'encoding': dict{}, "
                                      "builtins.str:'data-type': builtins.str:'ndarray', "
                                      "builtins.str:'values': ndarray[|i1|(3,)|010203]}}, "
                                      "builtins.str:'coords': dict{}, builtins.str:'attrs': "
                                      "dict{builtins.str:'chunked_with': builtins.str:'(({},), "
                                      "{})'}, builtins.str:'encoding': dict{}}, "
                                      "builtins.str:'/abc/sub': dict{builtins.str:'type': "
                                      "builtins.str:'Dataset', builtins.str:'sizes': "
                                      "dict{builtins.str:'y': builtins.int:4}, "
                                      "builtins.str:'data_vars': dict{builtins.str:'e': "
                                      "dict{builtins.str:'dims': tuple(builtins.str:'y'), "
                                      "builtins.str:'dtype': builtins.str:'float64', "
                                      "builtins.str:'attrs': dict{}, builtins.str:'encoding': "
                                      "dict{}, builtins.str:'data-type': builtins.str:'ndarray', "
                                      "builtins.str:'values': "
                                      'ndarray[<f8|(4,)|000000000000e03f000000000000f83f00000000000004400000000000000c40]}}, '
                                      "builtins.str:'coords': dict{}, builtins.str:'attrs': "
                                      "dict{builtins.str:'chunked_with': builtins.str:'(({},), "
                                      "{})'}, builtins.str:'encoding': dict{}}}}, "
                                      'builtins.str:"[([\'c\'], ({},), {}), ([\'c\'], ({},), {}), '
                                      '([\'e\'], ({},), {})]", builtins.bool:True)',
 'dataset|relative-root|x': "list(raise builtins.ImportError: chunk manager 'dask' is not "
                            "available. Please make sure 'dask' is installed and importable., "
                            "builtins.str:'None', builtins.bool:True)",
 'tree|relative-root|x': "list(raise builtins.ImportError: chunk manager 'dask' is not available. "
                         "Please make sure 'dask' is installed and importable., "
                         "builtins.str:'None', builtins.bool:True)",
 'dataset-recorded|relative-root|x': "list(dict{builtins.str:'type': builtins.str:'Dataset', "
                                     "builtins.str:'sizes': dict{builtins.str:'x': "
                                     "builtins.int:3}, builtins.str:'data_vars': "
                                     "dict{builtins.str:'c': dict{builtins.str:'dims': "
                                     "tuple(builtins.str:'x'), builtins.str:'dtype': "
                                     "builtins.str:'int8', builtins.str:'attrs': "
                                     "dict{builtins.str:'a': builtins.int:1}, "
                                     "builtins.str:'encoding': dict{}, builtins.str:'data-type': "
                                     "builtins.str:'ndarray', builtins.str:'values': "
                                     "ndarray[|i1|(3,)|010203]}}, builtins.str:'coords': dict{}, "
                                     "builtins.str:'attrs': dict{builtins.str:'chunked_with': "
                                     'builtins.str:"(({\'x\': 1},), {})"}, '
                                     'builtins.str:\'encoding\': dict{}}, builtins.str:"[([\'c\'], '
                                     '({\'x\': 1},), {})]", builtins.bool:True)',
 'tree-recorded|relative-root|x': "list(dict{builtins.str:'type': builtins.str:'DataTree', "
                                  "builtins.str:'name': builtins.NoneType:None, "
                                  "builtins.str:'paths': list(builtins.str:'/', "
                                  "builtins.str:'/abc', builtins.str:'/abc/sub'), "
                                  "builtins.str:'nodes': dict{builtins.str:'/': "
                                  "dict{builtins.str:'type': builtins.str:'Dataset', "
                                  "builtins.str:'sizes': dict{builtins.str:'x': builtins.int:3}, "
                                  "builtins.str:'data_vars': dict{builtins.str:'c': "
                                  "dict{builtins.str:'dims': tuple(builtins.str:'x'), "
                                  "builtins.str:'dtype': builtins.str:'int8', "
                                  "builtins.str:'attrs': dict{builtins.str:'a': builtins.int:1}, "
                                  "builtins.str:'encoding': dict{}, builtins.str:'data-type': "
                                  "builtins.str:'ndarray', builtins.str:'values': "
                                  "ndarray[|i1|(3,)|010203]}}, builtins.str:'coords': dict{}, "
                                  "builtins.str:'attrs': dict{builtins.str:'chunked_with': "
                                  'builtins.str:"(({\'x\': 1},), {})"}, builtins.str:\'encoding\': '
                                  "dict{}}, builtins.str:'/abc': dict{builtins.str:'type': "
                                  "builtins.str:'Dataset', builtins.str:'sizes': "
                                  "dict{builtins.str:'x': builtins.int:3}, "
                                  "builtins.str:'data_vars': dict{builtins.str:'c': "
                                  "dict{builtins.str:'dims': tuple(builtins.str:'x'), "
                                  "builtins.str:'dtype': builtins.str:'int8', "
                                  "builtins.str:'attrs': dict{builtins.str:'a': builtins.int:1}, "
                                  "builtins.str:'encoding': dict{}, builtins.str:'data-type': "
                                  "builtins.str:'ndarray', builtins.str:'values': "
                                  "ndarray[|i1|(3,)|010203]}}, builtins.str:'coords': dict{}, "
                                  "builtins.str:'attrs': dict{builtins.str:'chunked_with': "
                                  'builtins.str:"(({\'x\': 1},), {})"}, builtins.str:\'encoding\': '
                                  "dict{}}, builtins.str:'/abc/sub': dict{builtins.str:'type': "
                                  "builtins.str:'Dataset', builtins.str:'sizes': "
                                  "dict{builtins.str:'y': builtins.int:4}, "
                                  "builtins.str:'data_vars': dict{builtins.str:'e': "
                                  "dict{builtins.str:'dims': tuple(builtins.str:'y'), "
                                  "builtins.str:'dtype': builtins.str:'float64', "
                                  "builtins.str:'attrs': dict{}, builtins.str:'encoding': dict{}, "
                                  "builtins.str:'data-type': builtins.str:'ndarray', "
                                  "builtins.str:'values': "
                                  'ndarray[<f8|(4,)|000000000000e03f000000000000f83f00000000000004400000000000000c40]}}, '
                                  "builtins.str:'coords': dict{}, builtins.str:'attrs': "
                                  "dict{builtins.str:'chunked_with': builtins.str:'(({},), {})'}, "
                                  'builtins.str:\'encoding\': dict{}}}}, builtins.str:"[([\'c\'], '
                                  "({'x': 1},), {}), (['c'], ({'x': 1},), {}), (['e'], ({},), "
                                  '{})]", builtins.bool:True)',
 'dataset|relative-root|xy': "list(raise builtins.ImportError: chunk manager 'dask' is not "
                             "available. Please make sure 'dask' is installed and importable., "
                             "builtins.str:'None', builtins.bool:True)",
 'tree|relative-root|xy': "list(raise builtins.ImportError: chunk manager 'dask' is not available. "
                          "Please make sure 'dask' is installed and importable., "
                          "builtins.str:'None', builtins.bool:True)",
 'dataset-recorded|relative-root|xy': "list(dict{builtins.str:'type': builtins.str:'Dataset', "
                                      "builtins.str:'sizes': dict{builtins.str:'x': "
                                      "builtins.int:3}, builtins.str:'data_vars': "
                                      "dict{builtins.str:'c': dict{builtins.str:'dims': "
                                      "tuple(builtins.str:'x'), builtins.str:'dtype': "
                                      "builtins.str:'int8', builtins.str:'attrs': "
                                      "dict{builtins.str:'a': builtins.int:1}, "
                                      "builtins.str:'encoding': dict{}, builtins.str:'data-type': "
                                      "builtins.str:'ndarray', builtins.str:'values': "
                                      "ndarray[|i1|(3,)|010203]}}, builtins.str:'coords': dict{}, "
                                      "builtins.str:'attrs': dict{builtins.str:'chunked_with': "
                                      'builtins.str:"(({\'x\': 1},), {})"}, '
                                      "builtins.str:'encoding': dict{}}, "
                                      'builtins.str:"[([\'c\'], ({\'x\': 1},), {})]", '
                                      'builtins.bool:True)',
 'tree-recorded|relative-root|xy': "list(dict{builtins.str:'type': builtins.str:'DataTree', "
                                   "builtins.str:'name': builtins.NoneType:None, "
                                   "builtins.str:'paths': list(builtins.str:'/', "
                                   "builtins.str:'/abc', builtins.str:'/abc/sub'), "
                                   "builtins.str:'nodes': dict{builtins.str:'/': "
                                   "dict{builtins.str:'type': builtins.str:'Dataset', "
                                   "builtins.str:'sizes': dict{builtins.str:'x': builtins.int:3}, "
                                   "builtins.str:'data_vars': dict{builtins.str:'c': "
                                   "dict{builtins.str:'dims': tuple(builtins.str:'x'), "
                                   "builtins.str:'dtype': builtins.str:'int8', "
                                   "builtins.str:'attrs': dict{builtins.str:'a': builtins.int:1}, "
                                   "builtins.str:'encoding': dict{}, builtins.str:'data-type': "
                                   "builtins.str:'ndarray', builtins.str:'values': "
                                   "ndarray[|i1|(3,)|010203]}}, builtins.str:'coords': dict{}, "
                                   "builtins.str:'attrs': dict{builtins.str:'chunked_with': "
                                   'builtins.str:"(({\'x\': 1},), {})"}, '
                                   "builtins.str:'encoding': dict{}}, builtins.str:'/abc': "
                                   "dict{builtins.str:'type': builtins.str:'Dataset', "
                                   "builtins.str:'sizes': dict{builtins.str:'x': builtins.int:3}, "
                                   "builtins.str:'data_vars': dict{builtins.str:'c': "
                                   "dict{builtins.str:'dims': tuple(builtins.str:'x'), "
                                   "builtins.str:'dtype': builtins.str:'int8', "
                                   "builtins.str:'attrs': dict{builtins.str:'a': builtins.int:1}, "
                                   "builtins.str:'encoding': dict{}, builtins.str:'data-type': "
                                   "builtins.str:'ndarray', builtins.str:'values': "
                                   "ndarray[|i1|(3,)|010203]}}, builtins.str:'coords': dict{}, "
                                   "builtins.str:'attrs': dict{builtins.str:'chunked_with': "
                                   'builtins.str:"(({\'x\': 1},), {})"}, '
                                   "builtins.str:'encoding': dict{}}, builtins.str:'/abc/sub': "
                                   "dict{builtins.str:'type': builtins.str:'Dataset', "
                                   "builtins.str:'sizes': dict{builtins.str:'y': builtins.int:4}, "
                                   "builtins.str:'data_vars': dict{builtins.str:'e': "
                                   "dict{builtins.str:'dims': tuple(builtins.str:'y'), "
                                   "builtins.str:'dtype': builtins.str:'float64', "
                                   "builtins.str:'attrs': dict{}, builtins.str:'encoding': dict{}, "
                                   "builtins.str:'data-type': builtins.str:'ndarray', "
                                   "builtins.str:'values': "
                                   'ndarray[<f8|(4,)|000000000000e03f000000000000f83f00000000000004400000000000000c40]}}, '
                                   "builtins.str:'coords': dict{}, builtins.str:'attrs': "
                                   'dict{builtins.str:\'chunked_with\': builtins.str:"(({\'y\': '
                                   '2},), {})"}, builtins.str:\'encoding\': dict{}}}}, '
                                   'builtins.str:"[([\'c\'], ({\'x\': 1},), {}), ([\'c\'], '
                                   '({\'x\': 1},), {}), ([\'e\'], ({\'y\': 2},), {})]", '
                                   'builtins.bool:True)',
 'dataset|relative-root|yx': "list(raise builtins.ImportError: chunk manager 'dask' is not "
                             "available. Please make sure 'dask' is installed and importable., "
                             "builtins.str:'None', builtins.bool:True)",
 'tree|relative-root|yx': "list(raise builtins.ImportError: chunk manager 'dask' is not available. "
                          "Please make sure 'dask' is installed and importable., "
                          "builtins.str:'None', builtins.bool:True)",
 'dataset-recorded|relative-root|yx': "list(dict{builtins.str:'type': builtins.str:'Dataset', "
                                      "builtins.str:'sizes': dict{builtins.str:'x': "
                                      "builtins.int:3}, builtins.str:'data_vars': "
                                      "dict{builtins.str:'c': dict{builtins.str:'dims': "
                                      "tuple(builtins.str:'x'), builtins.str:'dtype': "
                                      "builtins.str:'int8', builtins.str:'attrs': "
                                      "dict{builtins.str:'a': builtins.int:1}, "
                                      "builtins.str:'encoding': dict{}, builtins.str:'data-type': "
                                      "builtins.str:'ndarray', builtins.str:'values': "
                                      "ndarray[|i1|(3,)|010203]}}, builtins.str:'coords': dict{}, "
                                      "builtins.str:'attrs': dict{builtins.str:'chunked_with': "
                                      'builtins.str:"(({\'x\': -1},), {})"}, '
                                      "builtins.str:'encoding': dict{}}, "
                                      'builtins.str:"[([\'c\'], ({\'x\': -1},), {})]", '
                                      'builtins.bool:True)',
 'tree-recorded|relative-root|yx': "list(dict{builtins.str:'type': builtins.str:'DataTree', "
                                   "builtins.str:'name': builtins.NoneType:None, "
                                   "builtins.str:'paths': list(builtins.str:'/', "
                                   "builtins.str:'/abc', builtins.str:'/abc/sub'), "
                                   "builtins.str:'nodes': dict{builtins.str:'/': "
                                   "dict{builtins.str:'type': builtins.str:'Dataset', "
                                   "builtins.str:'sizes': dict{builtins.str:'x': builtins.int:3}, "
                                   "builtins.str:'data_vars': dict{builtins.str:'c': "
                                   "dict{builtins.str:'dims': tuple(builtins.str:'x'), "
                                   "builtins.str:'dtype': builtins.str:'int8', "
                                   "builtins.str:'attrs': dict{builtins.str:'a': builtins.int:1}, "
                                   "builtins.str:'encoding': dict{}, builtins.str:'data-type': "
                                   "builtins.str:'ndarray', builtins.str:'values': "
                                   "ndarray[|i1|(3,)|010203]}}, builtins.str:'coords': dict{}, "
                                   "builtins.str:'attrs': dict{builtins.str:'chunked_with': "
                                   'builtins.str:"(({\'x\': -1},), {})"}, '
                                   "builtins.str:'encoding': dict{}}, builtins.str:'/abc': "
                                   "dict{builtins.str:'type': builtins.str:'Dataset', "
                                   "builtins.str:'sizes': dict{builtins.str:'x': builtins.int:3}, "
                                   "builtins.str:'data_vars': dict{builtins.str:'c': "
                                   "dict{builtins.str:'dims': tuple(builtins.str:'x'), "
                                   "builtins.str:'dtype': builtins.str:'int8', "
                                   "builtins.str:'attrs': dict{builtins.str:'a': builtins.int:1}, "
                                   "builtins.str:'encoding': dict{}, builtins.str:'data-type': "
                                   "builtins.str:'ndarray', builtins.str:'values': "
                                   "ndarray[|i1|(3,)|010203]}}, builtins.str:'coords': dict{}, "
                                   "builtins.str:'attrs': dict{builtins.str:'chunked_with': "
                                   'builtins.str:"(({\'x\': -1},), {})"}, '
                                   "builtins.str:'encoding': dict{}}, builtins.str:'/abc/sub': "
                                   "dict{builtins.str:'type': builtins.str:'Dataset', "
                                   "builtins.str:'sizes': dict{builtins.str:'y': builtins.int:4}, "
                                   "builtins.str:'data_vars': dict{builtins.str:'e': "
                                   "dict{builtins.str:'dims': tuple(builtins.str:'y'), "
                                   "builtins.str:'dtype': builtins.str:'float64', "
                                   "builtins.str:'attrs': dict{}, builtins.str:'encoding': dict{}, "
                                   "builtins.str:'data-type': builtins.str:'ndarray', "
                                   "builtins.str:'values': "
                                   'ndarray[<f8|(4,)|000000000000e03f000000000000f83f00000000000004400000000000000c40]}}, '
                                   "builtins.str:'coords': dict{}, builtins.str:'attrs': "
                                   'dict{builtins.str:\'chunked_with\': builtins.str:"(({\'y\': '
                                   '2},), {})"}, builtins.str:\'encoding\': dict{}}}}, '
                                   'builtins.str:"[([\'c\'], ({\'x\': -1},), {}), ([\'c\'], '
                                   '({\'x\': -1},), {}), ([\'e\'], ({\'y\': 2},), {})]", '
                                   'builtins.bool:True)',
 'dataset|relative-root|unknown': "list(raise builtins.ImportError: chunk manager 'dask' is not "
                                  "available. Please make sure 'dask' is installed and "
                                  "importable., builtins.str:'None', builtins.bool:True)",
 'tree|relative-root|unknown': "list(raise builtins.ImportError: chunk manager 'dask' is not "
                               "available. Please make sure 'dask' is installed and importable., "
                               "builtins.str:'None', builtins.bool:True)",
 'dataset-recorded|relative-root|unknown': "list(dict{builtins.str:'type': builtins.str:'Dataset', "
                                           "builtins.str:'sizes': dict{builtins.str:'x': "
                                           "builtins.int:3}, builtins.str:'data_vars': "
                                           "dict{builtins.str:'c': dict{builtins.str:'dims': "
                                           "tuple(builtins.str:'x'), builtins.str:'dtype': "
                                           "builtins.str:'int8', builtins.str:'attrs': "
                                           "dict{builtins.str:'a': builtins.int:1}, "
                                           "builtins.str:'encoding': dict{}, "
                                           "builtins.str:'data-type': builtins.str:'ndarray', "
                                           "builtins.str:'values': ndarray[|i1|(3,)|010203]}}, "
                                           "builtins.str:'coords': dict{}, builtins.str:'attrs': "
                                           "dict{builtins.str:'chunked_with': "
                                           "builtins.str:'(({},), {})'}, builtins.str:'encoding': "
                                           'dict{}}, builtins.str:"[([\'c\'], ({},), {})]", '
                                           'builtins.bool:True)',
 'tree-recorded|relative-root|unknown': "list(dict{builtins.str:'type': builtins.str:'DataTree', "
                                        "builtins.str:'name': builtins.NoneType:None, "
                                        "builtins.str:'paths': list(builtins.str:'/', "
                                        "builtins.str:'/abc', builtins.str:'/abc/sub'), "
                                        "builtins.str:'nodes': dict{builtins.str:'/': "
                                        "dict{builtins.str:'type': builtins.str:'Dataset', "
                                        "builtins.str:'sizes': dict{builtins.str:'x': "
                                        "builtins.int:3}, builtins.str:'data_vars': "
                                        "dict{builtins.str:'c': dict{builtins.str:'dims': "
                                        "tuple(builtins.str:'x'), builtins.str:'dtype': "
                                        "builtins.str:'int8', builtins.str:'attrs': "
                                        "dict{builtins.str:'a': builtins.int:1}, "
                                        "builtins.str:'encoding': dict{}, "
                                        "builtins.str:'data-type': builtins.str:'ndarray', "
                                        "builtins.str:'values': ndarray[|i1|(3,)|010203]}}, "
                                        "builtins.str:'coords': dict{}, builtins.str:'attrs': "
                                        "dict{builtins.str:'chunked_with': builtins.str:'(({},), "
                                        "{})'}, builtins.str:'encoding': dict{}}, "
                                        "builtins.str:'/abc': dict{builtins.str:'type': "
                                        "builtins.str:'Dataset', builtins.str:'sizes': "
                                        "dict{builtins.str:'x': builtins.int:3}, "
                                        "builtins.str:'data_vars': dict{builtins.str:'c': "
                                        "dict{builtins.str:'dims': tuple(builtins.str:'x'), "
                                        "builtins.str:'dtype': builtins.str:'int8', "
                                        "builtins.str:'attrs': dict{builtins.str:'a': "
                                        "builtins.int:1}, builtins.str:'encoding': dict{}, "
                                        "builtins.str:'data-type': builtins.str:'ndarray', "
                                        "builtins.str:'values': ndarray[|i1|(3,)|010203]}}, "
                                        "builtins.str:'coords': dict{}, builtins.str:'attrs': "
                                        "dict{builtins.str:'chunked_with': builtins.str:'(({},), "
                                        "{})'}, builtins.str:'encoding': dict{}}, "
                                        "builtins.str:'/abc/sub': dict{builtins.str:'type': "
                                        "builtins.str:'Dataset', builtins.str:'sizes': "
                                        "dict{builtins.str:'y': builtins.int:4}, "
                                        "builtins.str:'data_vars': dict{builtins.str:'e': "
                                        "dict{builtins.str:'dims': tuple(builtins.str:'y'), "
                                        "builtins.str:'dtype': builtins.str:'float64', "
                                        "builtins.str:'attrs': dict{}, builtins.str:'encoding': "
                                        "dict{}, builtins.str:'data-type': builtins.str:'ndarray', "
                                        "builtins.str:'values': "
                                        'ndarray[<f8|(4,)|000000000000e03f000000000000f83f00000000000004400000000000000c40]}}, '
                                        "builtins.str:'coords': dict{}, builtins.str:'attrs': "
                                        "dict{builtins.str:'chunked_with': builtins.str:'(({},), "
                                        "{})'}, builtins.str:'encoding': dict{}}}}, "
                                        'builtins.str:"[([\'c\'], ({},), {}), ([\'c\'], ({},), '
                                        '{}), ([\'e\'], ({},), {})]", builtins.bool:True)',
 'dataset|relative-root|mixed': "list(raise builtins.ImportError: chunk manager 'dask' is not "
                                "available. Please make sure 'dask' is installed and importable., "
                                "builtins.str:'None', builtins.bool:True)",
 'tree|relative-root|mixed': "list(raise builtins.ImportError: chunk manager 'dask' is not "
                             "available. Please make sure 'dask' is installed and importable., "
                             "builtins.str:'None', builtins.bool:True)",
 'dataset-recorded|relative-root|mixed': "list(dict{builtins.str:'type': builtins.str:'Dataset', "
                                         "builtins.str:'sizes': dict{builtins.str:'x': "
                                         "builtins.int:3}, builtins.str:'data_vars': "
                                         "dict{builtins.str:'c': dict{builtins.str:'dims': "
                                         "tuple(builtins.str:'x'), builtins.str:'dtype': "
                                         "builtins.str:'int8', builtins.str:'attrs': "
                                         "dict{builtins.str:'a': builtins.int:1}, "
                                         "builtins.str:'encoding': dict{}, "
                                         "builtins.str:'data-type': builtins.str:'ndarray', "
                                         "builtins.str:'values': ndarray[|i1|(3,)|010203]}}, "
                                         "builtins.str:'coords': dict{}, builtins.str:'attrs': "
                                         "dict{builtins.str:'chunked_with': "
                                         'builtins.str:"(({\'x\': \'auto\'},), {})"}, '
                                         "builtins.str:'encoding': dict{}}, "
                                         'builtins.str:"[([\'c\'], ({\'x\': \'auto\'},), {})]", '
                                         'builtins.bool:True)',
 'tree-recorded|relative-root|mixed': "list(dict{builtins.str:'type': builtins.str:'DataTree', "
                                      "builtins.str:'name': builtins.NoneType:None, "
                                      "builtins.str:'paths': list(builtins.str:'/', "
                                      "builtins.str:'/abc', builtins.str:'/abc/sub'), "
                                      "builtins.str:'nodes': dict{builtins.str:'/': "
                                      "dict{builtins.str:'type': builtins.str:'Dataset', "
                                      "builtins.str:'sizes': dict{builtins.str:'x': "
                                      "builtins.int:3}, builtins.str:'data_vars': "
                                      "dict{builtins.str:'c': dict{builtins.str:'dims': "
                                      "tuple(builtins.str:'x'), builtins.str:'dtype': "
                                      "builtins.str:'int8', builtins.str:'attrs': "
                                      "dict{builtins.str:'a': builtins.int:1}, "
                                      "builtins.str:'encoding': dict{}, builtins.str:'data-type': "
                                      "builtins.str:'ndarray', builtins.str:'values': "
                                      "ndarray[|i1|(3,)|010203]}}, builtins.str:'coords': dict{}, "
                                      "builtins.str:'attrs': dict{builtins.str:'chunked_with': "
                                      'builtins.str:"(({\'x\': \'auto\'},), {})"}, '
                                      "builtins.str:'encoding': dict{}}, builtins.str:'/abc': "
                                      "dict{builtins.str:'type': builtins.str:'Dataset', "
                                      "builtins.str:'sizes': dict{builtins.str:'x': "
                                      "builtins.int:3}, builtins.str:'data_vars': "
                                      "dict{builtins.str:'c': dict{builtins.str:'dims': "
                                      "tuple(builtins.str:'x'), builtins.str:'dtype': "
                                      "builtins.str:'int8', builtins.str:'attrs': "
                                      "dict{builtins.str:'a': builtins.int:1}, "
                                      "builtins.str:'encoding': dict{}, builtins.str:'data-type': "
                                      "builtins.str:'ndarray', builtins.str:'values': "
                                      "ndarray[|i1|(3,)|010203]}}, builtins.str:'coords': dict{}, "
                                      "builtins.str:'attrs': dict{builtins.str:'chunked_with': "
                                      'builtins.str:"(({\'x\': \'auto\'},), {})"}, '
                                      "builtins.str:'encoding': dict{}}, builtins.str:'/abc/sub': "
                                      "dict{builtins.str:'type': builtins.str:'Dataset', "
                                      "builtins.str:'sizes': dict{builtins.str:'y': "
                                      "builtins.int:4}, builtins.str:'data_vars': "
                                      "dict{builtins.str:'e': dict{builtins.str:'dims': "
                                      "tuple(builtins.str:'y'), builtins.str:'dtype': "
                                      "builtins.str:'float64', builtins.str:'attrs': dict{}, "
                                      "builtins.str:'encoding': dict{}, builtins.str:'data-type': "
                                      "builtins.str:'ndarray', builtins.str:'values': "
                                      'ndarray[<f8|(4,)|000000000000e03f000000000000f83f00000000000004400000000000000c40]}}, '
                                      "builtins.str:'coords': dict{}, builtins.str:'attrs': "
                                      "dict{builtins.str:'chunked_with': builtins.str:'(({},), "
                                      "{})'}, builtins.str:'encoding': dict{}}}}, "
                                      'builtins.str:"[([\'c\'], ({\'x\': \'auto\'},), {}), '
                                      "(['c'], ({'x': 'auto'},), {}), (['e'], ({},), "
                                      '{})]", builtins.bool:True)',
 'dataset|relative-root|int': "list(raise builtins.AttributeError: 'int' object has no attribute "
                              "'items', builtins.str:'None', builtins.bool:True)",
 'tree|relative-root|int': "list(raise builtins.AttributeError: 'int' object has no attribute "
                           "'items', builtins.str:'None', builtins.bool:True)",
 'dataset-recorded|relative-root|int': "list(raise builtins.AttributeError: 'int' object has no "
                                       "attribute 'items', builtins.str:'[]', builtins.bool:True)",
 'tree-recorded|relative-root|int': "list(raise builtins.AttributeError: 'int' object has no "
                                    "attribute 'items', builtins.str:'[]', builtins.bool:True)",
 'dataset|relative-root|str': "list(raise builtins.AttributeError: 'str' object has no attribute "
                              "'items', builtins.str:'None', builtins.bool:True)",
 'tree|relative-root|str': "list(raise builtins.AttributeError: 'str' object has no attribute "
                           "'items', builtins.str:'None', builtins.bool:True)",
 'dataset-recorded|relative-root|str': "list(raise builtins.AttributeError: 'str' object has no "
                                       "attribute 'items', builtins.str:'[]', builtins.bool:True)",
 'tree-recorded|relative-root|str': "list(raise builtins.AttributeError: 'str' object has no "
                                    "attribute 'items', builtins.str:'[]', builtins.bool:True)",
 'dataset|relative-root|list': "list(raise builtins.AttributeError: 'list' object has no attribute "
                               "'items', builtins.str:'None', builtins.bool:True)",
 'tree|relative-root|list': "list(raise builtins.AttributeError: 'list' object has no attribute "
                            "'items', builtins.str:'None', builtins.bool:True)",
 'dataset-recorded|relative-root|list': "list(raise builtins.AttributeError: 'list' object has no "
                                        "attribute 'items', builtins.str:'[]', builtins.bool:True)",
 'tree-recorded|relative-root|list': "list(raise builtins.AttributeError: 'list' object has no "
                                     "attribute 'items', builtins.str:'[]', builtins.bool:True)",
 'dataset|relative-root|tuple-keys': "list(raise builtins.ImportError: chunk manager 'dask' is not "
                                     "available. Please make sure 'dask' is installed and "
                                     "importable., builtins.str:'None', builtins.bool:True)",
 'tree|relative-root|tuple-keys': "list(raise builtins.ImportError: chunk manager 'dask' is not "
                                  "available. Please make sure 'dask' is installed and "
                                  "importable., builtins.str:'None', builtins.bool:True)",
 'dataset-recorded|relative-root|tuple-keys': "list(dict{builtins.str:'type': "
                                              "builtins.str:'Dataset', builtins.str:'sizes': "
                                              "dict{builtins.str:'x': builtins.int:3}, "
                                              "builtins.str:'data_vars': dict{builtins.str:'c': "
                                              "dict{builtins.str:'dims': tuple(builtins.str:'x'), "
                                              "builtins.str:'dtype': builtins.str:'int8', "
                                              "builtins.str:'attrs': dict{builtins.str:'a': "
                                              "builtins.int:1}, builtins.str:'encoding': dict{}, "
                                              "builtins.str:'data-type': builtins.str:'ndarray', "
                                              "builtins.str:'values': ndarray[|i1|(3,)|010203]}}, "
                                              "builtins.str:'coords': dict{}, "
                                              "builtins.str:'attrs': "
                                              "dict{builtins.str:'chunked_with': "
                                              "builtins.str:'(({},), {})'}, "
                                              "builtins.str:'encoding': dict{}}, "
                                              'builtins.str:"[([\'c\'], ({},), {})]", '
                                              'builtins.bool:True)',
 'tree-recorded|relative-root|tuple-keys': "list(dict{builtins.str:'type': "
                                           "builtins.str:'DataTree', builtins.str:'name': "
                                           "builtins.NoneType:None, builtins.str:'paths': "
                                           "list(builtins.str:'/', builtins.str:'/abc', "
                                           "builtins.str:'/abc/sub'), builtins.str:'nodes': "
                                           "dict{builtins.str:'/': dict{builtins.str:'type': "
                                           "builtins.str:'Dataset', builtins.str:'sizes': "
                                           "dict{builtins.str:'x': builtins.int:3}, "
                                           "builtins.str:'data_vars': dict{builtins.str:'c': "
                                           "dict{builtins.str:'dims': tuple(builtins.str:'x'), "
                                           "builtins.str:'dtype': builtins.str:'int8', "
                                           "builtins.str:'attrs': dict{builtins.str:'a': "
                                           "builtins.int:1}, builtins.str:'encoding': dict{}, "
                                           "builtins.str:'data-type': builtins.str:'ndarray', "
                                           "builtins.str:'values': ndarray[|i1|(3,)|010203]}}, "
                                           "builtins.str:'coords': dict{}, builtins.str:'attrs': "
                                           "dict{builtins.str:'chunked_with': "
                                           "builtins.str:'(({},), {})'}, builtins.str:'encoding': "
                                           "dict{}}, builtins.str:'/abc': "
                                           "dict{builtins.str:'type': builtins.str:'Dataset', "
                                           "builtins.str:'sizes': dict{builtins.str:'x': "
                                           "builtins.int:3}, builtins.str:'data_vars': "
                                           "dict{builtins.str:'c': dict{builtins.str:'dims': "
                                           "tuple(builtins.str:'x'), builtins.str:'dtype': "
                                           "builtins.str:'int8', builtins.str:'attrs': "
                                           "dict{builtins.str:'a': builtins.int:1}, "
                                           "builtins.str:'encoding': dict{}, "
                                           "builtins.str:'data-type': builtins.str:'ndarray', "
                                           "builtins.str:'values': ndarray[|i1|(3,)|010203]}}, "
                                           "builtins.str:'coords': dict{}, builtins.str:'attrs': "
                                           "dict{builtins.str:'chunked_with': "
                                           "builtins.str:'(({},), {})'}, builtins.str:'encoding': "
                                           "dict{}}, builtins.str:'/abc/sub': "
                                           "dict{builtins.str:'type': builtins.str:'Dataset', "
                                           "builtins.str:'sizes': dict{builtins.str:'y': "
                                           "builtins.int:4}, builtins.str:'data_vars': "
                                           "dict{builtins.str:'e': dict{builtins.str:'dims': "
                                           "tuple(builtins.str:'y'), builtins.str:'dtype': "
                                           "builtins.str:'float64', builtins.str:'attrs': dict{}, "
                                           "builtins.str:'encoding': dict{}, "
                                           "builtins.str:'data-type': builtins.str:'ndarray', "
                                           "builtins.str:'values': "
                                           'ndarray[<f8|(4,)|000000000000e03f000000000000f83f00000000000004400000000000000c40]}}, '
                                           "builtins.str:'coords': dict{}, builtins.str:'attrs': "
                                           "dict{builtins.str:'chunked_with': "
                                           "builtins.str:'(({},), {})'}, builtins.str:'encoding': "
                                           'dict{}}}}, builtins.str:"[([\'c\'], ({},), {}), '
                                           '([\'c\'], ({},), {}), ([\'e\'], ({},), {})]", '
                                           'builtins.bool:True)',
 'dataset|absolute-root|none': "list(dict{builtins.str:'type': builtins.str:'Dataset', "
                               "builtins.str:'sizes': dict{builtins.str:'x': builtins.int:3}, "
                               "builtins.str:'data_vars': dict{builtins.str:'c': "
                               "dict{builtins.str:'dims': tuple(builtins.str:'x'), "
                               "builtins.str:'dtype': builtins.str:'int8', builtins.str:'attrs': "
                               "dict{builtins.str:'a': builtins.int:1}, builtins.str:'encoding': "
                               "dict{}, builtins.str:'data-type': builtins.str:'ndarray', "
                               "builtins.str:'values': ndarray[|i1|(3,)|010203]}}, "
                               "builtins.str:'coords': dict{}, builtins.str:'attrs': dict{}, "
                               "builtins.str:'encoding': dict{}}, builtins.str:'None', "
                               'builtins.bool:True)',
 'tree|absolute-root|none': "list(dict{builtins.str:'type': builtins.str:'DataTree', "
                            "builtins.str:'name': builtins.NoneType:None, builtins.str:'paths': "
                            "list(builtins.str:'/', builtins.str:'/abc', builtins.str:'/abc/sub'), "
                            "builtins.str:'nodes': dict{builtins.str:'/': "
                            "dict{builtins.str:'type': builtins.str:'Dataset', "
                            "builtins.str:'sizes': dict{builtins.str:'x': builtins.int:3}, "
                            "builtins.str:'data_vars': dict{builtins.str:'c': "
                            "dict{builtins.str:'dims': tuple(builtins.str:'x'), "
                            "builtins.str:'dtype': builtins.str:'int8', builtins.str:'attrs': "
                            "dict{builtins.str:'a': builtins.int:1}, builtins.str:'encoding': "
                            "dict{}, builtins.str:'data-type': builtins.str:'ndarray', "
                            "builtins.str:'values': ndarray[|i1|(3,)|010203]}}, "
                            "builtins.str:'coords': dict{}, builtins.str:'attrs': dict{}, "
                            "builtins.str:'encoding': dict{}}, builtins.str:'/abc': "
                            "dict{builtins.str:'type': builtins.str:'Dataset', "
                            "builtins.str:'sizes': dict{builtins.str:'x': builtins.int:3}, "
                            "builtins.str:'data_vars': dict{builtins.str:'c': "
                            "dict{builtins.str:'dims': tuple(builtins.str:'x'), "
                            "builtins.str:'dtype': builtins.str:'int8', builtins.str:'attrs': "
                            "dict{builtins.str:'a': builtins.int:1}, builtins.str:'encoding': "
                            "dict{}, builtins.str:'data-type': builtins.str:'ndarray', "
                            "builtins.str:'values': ndarray[|i1|(3,)|010203]}}, "
                            "builtins.str:'coords': dict{}, builtins.str:'attrs': dict{}, "
                            "builtins.str:'encoding': dict{}}, builtins.str:'/abc/sub': "
                            "dict{builtins.str:'type': builtins.str:'Dataset', "
                            "builtins.str:'sizes': dict{builtins.str:'y': builtins.int:4}, "
                            "builtins.str:'data_vars': dict{builtins.str:'e': "
                            "dict{builtins.str:'dims': tuple(builtins.str:'y'), "
                            "builtins.str:'dtype': builtins.str:'float64', builtins.str:'attrs': "
                            "dict{}, builtins.str:'encoding': dict{}, builtins.str:'data-type': "
                            "builtins.str:'ndarray', builtins.str:'values': "
                            'ndarray[<f8|(4,)|000000000000e03f000000000000f83f00000000000004400000000000000c40]}}, '
                            "builtins.str:'coords': dict{}, builtins.str:'attrs': dict{}, "
                            "builtins.str:'encoding': dict{}}}}, builtins.str:'None', "
                            'builtins.bool:True)',
 'dataset|absolute-root|empty': "list(raise builtins.ImportError: chunk manager 'dask' is not "
                                "available. Please make sure 'dask' is installed and importable., "
                                "builtins.str:'None', builtins.bool:True)",
 'tree|absolute-root|empty': "list(raise builtins.ImportError: chunk manager 'dask' is not "
                             "available. Please make sure 'dask' is installed and importable., "
                             "builtins.str:'None', builtins.bool:True)",
 'dataset-recorded|absolute-root|empty': "list(dict{builtins.str:'type': builtins.str:'Dataset', "
                                         "builtins.str:'sizes': dict{builtins.str:'x': "
                                         "builtins.int:3}, builtins.str:'data_vars': "
                                         "dict{builtins.str:'c': dict{builtins.str:'dims': "
                                         "tuple(builtins.str:'x'), builtins.str:'dtype': "
                                         "builtins.str:'int8', builtins.str:'attrs': "
                                         "dict{builtins.str:'a': builtins.int:1}, "
                                         "builtins.str:'encoding': dict{}, "
                                         "builtins.str:'data-type': builtins.str:'ndarray', "
                                         "builtins.str:'values': ndarray[|i1|(3,)|010203]}}, "
                                         "builtins.str:'coords': dict{}, builtins.str:'attrs': "
                                         "dict{builtins.str:'chunked_with': builtins.str:'(({},), "
                                         "{})'}, builtins.str:'encoding': dict{}}, "
                                         'builtins.str:"[([\'c\'], ({},), {})]", '
                                         'builtins.bool:True)',
 'tree-recorded|absolute-root|empty': "list(dict{builtins.str:'type': builtins.str:'DataTree', "
                                      "builtins.str:'name': builtins.NoneType:None, "
                                      "builtins.str:'paths': list(builtins.str:'/', "
                                      "builtins.str:'/abc', builtins.str:'/abc/sub'), "
                                      "builtins.str:'nodes': dict{builtins.str:'/': "
                                      "dict{builtins.str:'type': builtins.str:'Dataset', "
                                      "builtins.str:'sizes': dict{builtins.str:'x': "
                                      "builtins.int:3}, builtins.str:'data_vars': "
                                      "dict{builtins.str:'c': dict{builtins.str:'dims': "
                                      "tuple(builtins.str:'x'), builtins.str:'dtype': "
                                      "builtins.str:'int8', builtins.str:'attrs': "
                                      "dict{builtins.str:'a': builtins.int:1}, "
                                      "builtins.str:'encoding': dict{}, builtins.str:'data-type': "
                                      "builtins.str:'ndarray', builtins.str:'values': "
                                      "ndarray[|i1|(3,)|010203]}}, builtins.str:'coords': dict{}, "
                                      "builtins.str:'attrs': dict{builtins.str:'chunked_with': "
                                      "builtins.str:'(({},), {})'}, builtins.str:'encoding': "
                                      "dict{}}, builtins.str:'/abc': dict{builtins.str:'type': "
                                      "builtins.str:'Dataset', builtins.str:'sizes': "
                                      "dict{builtins.str:'x': builtins.int:3}, "
                                      "builtins.str:'data_vars': dict{builtins.str:'c': "
                                      "dict{builtins.str:'dims': tuple(builtins.str:'x'), "
                                      "builtins.str:'dtype': builtins.str:'int8', "
                                      "builtins.str:'attrs': dict{builtins.str:'a': "
                                      "builtins.int:1}, builtins.str:'encoding': dict{}, "
                                      "builtins.str:'data-type': builtins.str:'ndarray', "
                                      "builtins.str:'values': ndarray[|i1|(3,)|010203]}}, "
                                      "builtins.str:'coords': dict{}, builtins.str:'attrs': "
                                      "dict{builtins.str:'chunked_with': builtins.str:'(({},), "
                                      "{})'}, builtins.str:'encoding': dict{}}, "
                                      "builtins.str:'/abc/sub': dict{builtins.str:'type': "
                                      "builtins.str:'Dataset', builtins.str:'sizes': "
                                      "dict{builtins.str:'y': builtins.int:4}, "
                                      "builtins.str:'data_vars': dict{builtins.str:'e': "
                                      "dict{builtins.str:'dims': tuple(builtins.str:'y'), "
                                      "builtins.str:'dtype': builtins.str:'float64', "
                                      "builtins.str:'attrs': dict{}, builtins.str:'encoding': "
                                      "dict{}, builtins.str:'data-type': builtins.str:'ndarray', "
                                      "builtins.str:'values': "
                                      'ndarray[<f8|(4,)|000000000000e03f000000000000f83f00000000000004400000000000000c40]}}, '
                                      "builtins.str:'coords': dict{}, builtins.str:'attrs': "
                                      "dict{builtins.str:'chunked_with': builtins.str:'(({},), "
                                      "{})'}, builtins.str:'encoding': dict{}}}}, "
                                      'builtins.str:"[([\'c\'], ({},), {}), ([\'c\'], ({},), {}), '
                                      '([\'e\'], ({},), {})]", builtins.bool:True)',
 'dataset|absolute-root|x': "list(raise builtins.ImportError: chunk manager 'dask' is not "
                            "available. Please make sure 'dask' is installed and importable., "
                            "builtins.str:'None', builtins.bool:True)",
 'tree|absolute-root|x': "list(raise builtins.ImportError: chunk manager 'dask' is not available. "
                         "Please make sure 'dask' is installed and importable., "
                         "builtins.str:'None', builtins.bool:True)",
 'dataset-recorded|absolute-root|x': "list(dict{builtins.str:'type': builtins.str:'Dataset', "
                                     "builtins.str:'sizes': dict{builtins.str:'x': "
                                     "builtins.int:3}, builtins.str:'data_vars': "
                                     "dict{builtins.str:'c': dict{builtins.str:'dims': "
                                     "tuple(builtins.str:'x'), builtins.str:'dtype': "
                                     "builtins.str:'int8', builtins.str:'attrs': "
                                     "dict{builtins.str:'a': builtins.int:1}, "
                                     "builtins.str:'encoding': dict{}, builtins.str:'data-type': "
                                     "builtins.str:'ndarray', builtins.str:'values': "
                                     "ndarray[|i1|(3,)|010203]}}, builtins.str:'coords': dict{}, "
                                     "builtins.str:'attrs': dict{builtins.str:'chunked_with': "
                                     'builtins.str:"(({\'x\': 1},), {})"}, '
                                     'builtins.str:\'encoding\': dict{}}, builtins.str:"[([\'c\'], '
                                     '({\'x\': 1},), {})]", builtins.bool:True)',
 'tree-recorded|absolute-root|x': "list(dict{builtins.str:'type': builtins.str:'DataTree', "
                                  "builtins.str:'name': builtins.NoneType:None, "
                                  "builtins.str:'paths': list(builtins.str:'/', "
                                  "builtins.str:'/abc', builtins.str:'/abc/sub'), "
                                  "builtins.str:'nodes': dict{builtins.str:'/': "
                                  "dict{builtins.str:'type': builtins.str:'Dataset', "
                                  "builtins.str:'sizes': dict{builtins.str:'x': builtins.int:3}, "
                                  "builtins.str:'data_vars': dict{builtins.str:'c': "
                                  "dict{builtins.str:'dims': tuple(builtins.str:'x'), "
                                  "builtins.str:'dtype': builtins.str:'int8', "
                                  "builtins.str:'attrs': dict{builtins.str:'a': builtins.int:1}, "
                                  "builtins.str:'encoding': dict{}, builtins.str:'data-type': "
                                  "builtins.str:'ndarray', builtins.str:'values': "
                                  "ndarray[|i1|(3,)|010203]}}, builtins.str:'coords': dict{}, "
                                  "builtins.str:'attrs': dict{builtins.str:'chunked_with': "
                                  'builtins.str:"(({\'x\': 1},), {})"}, builtins.str:\'encoding\': '
                                  "dict{}}, builtins.str:'/abc': dict{builtins.str:'type': "
                                  "builtins.str:'Dataset', builtins.str:'sizes': "
                                  "dict{builtins.str:'x': builtins.int:3}, "
                                  "builtins.str:'data_vars': dict{builtins.str:'c': "
                                  "dict{builtins.str:'dims': tuple(builtins.str:'x'), "
                                  "builtins.str:'dtype': builtins.str:'int8', "
                                  "builtins.str:'attrs': dict{builtins.str:'a': builtins.int:1}, "
                                  "builtins.str:'encoding': dict{}, builtins.str:'data-type': "
                                  "builtins.str:'ndarray', builtins.str:'values': "
                                  "ndarray[|i1|(3,)|010203]}}, builtins.str:'coords': dict{}, "
                                  "builtins.str:'attrs': dict{builtins.str:'chunked_with': "
                                  'builtins.str:"(({\'x\': 1},), {})"}, builtins.str:\'encoding\': '
                                  "dict{}}, builtins.str:'/abc/sub': dict{builtins.str:'type': "
                                  "builtins.str:'Dataset', builtins.str:'sizes': "
                                  "dict{builtins.str:'y': builtins.int:4}, "
                                  "builtins.str:'data_vars': dict{builtins.str:'e': "
                                  "dict{builtins.str:'dims': tuple(builtins.str:'y'), "
                                  "builtins.str:'dtype': builtins.str:'float64', "
                                  "builtins.str:'attrs': dict{}, builtins.str:'encoding': dict{}, "
                                  "builtins.str:'data-type': builtins.str:'ndarray', "
                                  "builtins.str:'values': "
                                  'ndarray[<f8|(4,)|000000000000e03f000000000000f83f00000000000004400000000000000c40]}}, '
                                  "builtins.str:'coords': dict{}, builtins.str:'attrs': "
                                  "dict{builtins.str:'chunked_with': builtins.str:'(({},), {})'}, "
                                  'builtins.str:\'encoding\': dict{}}}}, builtins.str:"[([\'c\'], '
                                  "({'x': 1},), {}), (['c'], ({'x': 1},), {}), (['e'], ({},), "
                                  '{})]", builtins.bool:True)',
 'dataset|absolute-root|xy': "list(raise builtins.ImportError: chunk manager 'dask' is not "
                             "available. Please make sure 'dask' is installed and importable., "
                             "builtins.str:'None', builtins.bool:True)",
 'tree|absolute-root|xy': "list(raise builtins.ImportError: chunk manager 'dask' is not available. "
                          "Please make sure 'dask' is installed and importable., "
                          "builtins.str:'None', builtins.bool:True)",
 'dataset-recorded|absolute-root|xy': "list(dict{builtins.str:'type': builtins.str:'Dataset', "
                                      "builtins.str:'sizes': dict{builtins.str:'x': "
                                      "builtins.int:3}, builtins.str:'data_vars': "
                                      "dict{builtins.str:'c': dict{builtins.str:'dims': "
                                      "tuple(builtins.str:'x'), builtins.str:'dtype': "
                                      "builtins.str:'int8', builtins.str:'attrs': "
                                      "dict{builtins.str:'a': builtins.int:1}, "
                                      "builtins.str:'encoding': dict{}, builtins.str:'data-type': "
                                      "builtins.str:'ndarray', builtins.str:'values': "
                                      "ndarray[|i1|(3,)|010203]}}, builtins.str:'coords': dict{}, "
                                      "builtins.str:'attrs': dict{builtins.str:'chunked_with': "
                                      'builtins.str:"(({\'x\': 1},), {})"}, '
                                      "builtins.str:'encoding': dict{}}, "
                                      'builtins.str:"[([\'c\'], ({\'x\': 1},), {})]", '
                                      'builtins.bool:True)',
 'tree-recorded|absolute-root|xy': "list(dict{builtins.str:'type': builtins.str:'DataTree', "
                                   "builtins.str:'name': builtins.NoneType:None, "
                                   "builtins.str:'paths': list(builtins.str:'/', "
                                   "builtins.str:'/abc', builtins.str:'/abc/sub'), "
                                   "builtins.str:'nodes': dict{builtins.str:'/': "
                                   "dict{builtins.str:'type': builtins.str:'Dataset', "
                                   "builtins.str:'sizes': dict{builtins.str:'x': builtins.int:3}, "
                                   "builtins.str:'data_vars': dict{builtins.str:'c': "
                                   "dict{builtins.str:'dims': tuple(builtins.str:'x'), "
                                   "builtins.str:'dtype': builtins.str:'int8', "
                                   "builtins.str:'attrs': dict{builtins.str:'a': builtins.int:1}, "
                                   "builtins.str:'encoding': dict{}, builtins.str:'data-type': "
                                   "builtins.str:'ndarray', builtins.str:'values': "
                                   "ndarray[|i1|(3,)|010203]}}, builtins.str:'coords': dict{}, "
                                   "builtins.str:'attrs': dict{builtins.str:'chunked_with': "
                                   'builtins.str:"(({\'x\': 1},), {})"}, '
                                   "builtins.str:'encoding': dict{}}, builtins.str:'/abc': "
                                   "dict{builtins.str:'type': builtins.str:'Dataset', "
                                   "builtins.str:'sizes': dict{builtins.str:'x': builtins.int:3}, "
                                   "builtins.str:'data_vars': dict{builtins.str:'c': "
                                   "dict{builtins.str:'dims': tuple(builtins.str:'x'), "
                                   "builtins.str:'dtype': builtins.str:'int8', "
                                   "builtins.str:'attrs': dict{builtins.str:'a': builtins.int:1}, "
                                   "builtins.str:'encoding': dict{}, builtins.str:'data-type': "
                                   "builtins.str:'ndarray', builtins.str:'values': "
                                   "ndarray[|i1|(3,)|010203]}}, builtins.str:'coords': dict{}, "
                                   "builtins.str:'attrs': dict{builtins.str:'chunked_with': "
                                   'builtins.str:"(({\'x\': 1},), {})"}, '
                                   "builtins.str:'encoding': dict{}}, builtins.str:'/abc/sub': "
                                   "dict{builtins.str:'type': builtins.str:'Dataset', "
                                   "builtins.str:'sizes': dict{builtins.str:'y': builtins.int:4}, "
                                   "builtins.str:'data_vars': dict{builtins.str:'e': "
                                   "dict{builtins.str:'dims': tuple(builtins.str:'y'), "
                                   "builtins.str:'dtype': builtins.str:'float64', "
                                   "builtins.str:'attrs': dict{}, builtins.str:'encoding': dict{}, "
                                   "builtins.str:'data-type': builtins.str:'ndarray', "
                                   "builtins.str:'values': "
                                   'ndarray[<f8|(4,)|000000000000e03f000000000000f83f00000000000004400000000000000c40]}}, '
                                   "builtins.str:'coords': dict{}, builtins.str:'attrs': "
                                   'dict{builtins.str:\'chunked_with\': builtins.str:"(({\'y\': '
                                   '2},), {})"}, builtins.str:\'encoding\': dict{}}}}, '
                                   'builtins.str:"[([\'c\'], ({\'x\': 1},), {}), ([\'c\'], '
                                   '({\'x\': 1},), {}), ([\'e\'], ({\'y\': 2},), {})]", '
                                   'builtins.bool:True)',
 'dataset|absolute-root|yx': "list(raise builtins.ImportError: chunk manager 'dask' is not "
                             "available. Please make sure 'dask' is installed and importable., "
                             "builtins.str:'None', builtins.bool:True)",
 'tree|absolute-root|yx': "list(raise builtins.ImportError: chunk manager 'dask' is not available. "
                          "Please make sure 'dask' is installed and importable., "
                          "builtins.str:'None', builtins.bool:True)",
 'dataset-recorded|absolute-root|yx': "list(dict{builtins.str:'type': builtins.str:'Dataset', "
                                      "builtins.str:'sizes': dict{builtins.str:'x': "
                                      "builtins.int:3}, builtins.str:'data_vars': "
                                      "dict{builtins.str:'c': dict{builtins.str:'dims': "
                                      "tuple(builtins.str:'x'), builtins.str:'dtype': "
                                      "builtins.str:'int8', builtins.str:'attrs': "
                                      "dict{builtins.str:'a': builtins.int:1}, "
                                      "builtins.str:'encoding': dict{}, builtins.str:'data-type': "
                                      "builtins.str:'ndarray', builtins.str:'values': "
                                      "ndarray[|i1|(3,)|010203]}}, builtins.str:'coords': dict{}, "
                                      "builtins.str:'attrs': dict{builtins.str:'chunked_with': "
                                      'builtins.str:"(({\'x\': -1},), {})"}, '
                                      "builtins.str:'encoding': dict{}}, "
                                      'builtins.str:"[([\'c\'], ({\'x\': -1},), {})]", '
                                      'builtins.bool:True)',
 'tree-recorded|absolute-root|yx': "list(dict{builtins.str:'type': builtins.str:'DataTree', "
                                   "builtins.str:'name': builtins.NoneType:None, "
                                   "builtins.str:'paths': list(builtins.str:'/', "
                                   "builtins.str:'/abc', builtins.str:'/abc/sub'), "
                                   "builtins.str:'nodes': dict{builtins.str:'/': "
                                   "dict{builtins.str:'type': builtins.str:'Dataset', "
                                   "builtins.str:'sizes': dict{builtins.str:'x': builtins.int:3}, "
                                   "builtins.str:'data_vars': dict{builtins.str:'c': "
                                   "dict{builtins.str:'dims': tuple(builtins.str:'x'), "
                                   "builtins.str:'dtype': builtins.str:'int8', "
                                   "builtins.str:'attrs': dict{builtins.str:'a': builtins.int:1}, "
                                   "builtins.str:'encoding': dict{}, builtins.str:'data-type': "
                                   "builtins.str:'ndarray', builtins.str:'values': "
                                   "ndarray[|i1|(3,)|010203]}}, builtins.str:'coords': dict{}, "
                                   "builtins.str:'attrs': dict{builtins.str:'chunked_with': "
                                   'builtins.str:"(({\'x\': -1},), {})"}, '
                                   "builtins.str:'encoding': dict{}}, builtins.str:'/abc': "
                                   "dict{builtins.str:'type': builtins.str:'Dataset', "
                                   "builtins.str:'sizes': dict{builtins.str:'x': builtins.int:3}, "
                                   "builtins.str:'data_vars': dict{builtins.str:'c': "
                                   "dict{builtins.str:'dims': tuple(builtins.str:'x'), "
                                   "builtins.str:'dtype': builtins.str:'int8', "
                                   "builtins.str:'attrs': dict{builtins.str:'a': builtins.int:1}, "
                                   "builtins.str:'encoding': dict{}, builtins.str:'data-type': "
                                   "builtins.str:'ndarray', builtins.str:'values': "
                                   "ndarray[|i1|(3,)|010203]}}, builtins.str:'coords': dict{}, "
                                   "builtins.str:'attrs': dict{builtins.str:'chunked_with': "
                                   'builtins.str:"(({\'x\': -1},), {})"}, '
                                   "builtins.str:'encoding': dict{}}, builtins.str:'/abc/sub': "
                                   "dict{builtins.str:'type': builtins.str:'Dataset', "
                                   "builtins.str:'sizes': dict{builtins.str:'y': builtins.int:4}, "
                                   "builtins.str:'data_vars': dict{builtins.str:'e': "
                                   "dict{builtins.str:'dims': tuple(builtins.str:'y'), "
                                   "builtins.str:'dtype': builtins.str:'float64', "
                                   "builtins.str:'attrs': dict{}, builtins.str:'encoding': dict{}, "
                                   "builtins.str:'data-type': builtins.str:'ndarray', "
                                   "builtins.str:'values': "
                                   'ndarray[<f8|(4,)|000000000000e03f000000000000f83f00000000000004400000000000000c40]}}, '
                                   "builtins.str:'coords': dict{}, builtins.str:'attrs': "
                                   'dict{builtins.str:\'chunked_with\': builtins.str:"(({\'y\': '
                                   '2},), {})"}, builtins.str:\'encoding\': dict{}}}}, '
                                   'builtins.str:"[([\'c\'], ({\'x\': -1},), {}), ([\'c\'], '
                                   '({\'x\': -1},), {}), ([\'e\'], ({\'y\': 2},), {})]", '
                                   'builtins.bool:True)',
 'dataset|absolute-root|unknown': "list(raise builtins.ImportError: chunk manager 'dask' is not "
                                  "available. Please make sure 'dask' is installed and "
                                  "importable., builtins.str:'None', builtins.bool:True)",
 'tree|absolute-root|unknown': "list(raise builtins.ImportError: chunk manager 'dask' is not "
                               "available. Please make sure 'dask' is installed and importable., "
                               "builtins.str:'None', builtins.bool:True)",
 'dataset-recorded|absolute-root|unknown': "list(dict{builtins.str:'type': builtins.str:'Dataset', "
                                           "builtins.str:'sizes': dict{builtins.str:'x': "
                                           "builtins.int:3}, builtins.str:'data_vars': "
                                           "dict{builtins.str:'c': dict{builtins.str:'dims': "
                                           "tuple(builtins.str:'x'), builtins.str:'dtype': "
                                           "builtins.str:'int8', builtins.str:'attrs': "
                                           "dict{builtins.str:'a': builtins.int:1}, "
                                           "builtins.str:'encoding': dict{}, "
                                           "builtins.str:'data-type': builtins.str:'ndarray', "
                                           "builtins.str:'values': ndarray[|i1|(3,)|010203]}}, "
                                           "builtins.str:'coords': dict{}, builtins.str:'attrs': "
                                           "dict{builtins.str:'chunked_with': "
                                           "builtins.str:'(({},), {})'}, builtins.str:'encoding': "
                                           'dict{}}, builtins.str:"[([\'c\'], ({},), {})]", '
                                           'builtins.bool:True)',
 'tree-recorded|absolute-root|unknown': "list(dict{builtins.str:'type': builtins.str:'DataTree', "
                                        "builtins.str:'name': builtins.NoneType:None, "
                                        "builtins.str:'paths': list(builtins.str:'/', "
                                        "builtins.str:'/abc', builtins.str:'/abc/sub'), "
                                        "builtins.str:'nodes': dict{builtins.str:'/': "
                                        "dict{builtins.str:'type': builtins.str:'Dataset', "
                                        "builtins.str:'sizes': dict{builtins.str:'x': "
                                        "builtins.int:3}, builtins.str:'data_vars': "
                                        "dict{builtins.str:'c': dict{builtins.str:'dims': "
                                        "tuple(builtins.str:'x'), builtins.str:'dtype': "
                                        "builtins.str:'int8', builtins.str:'attrs': "
                                        "dict{builtins.str:'a': builtins.int:1}, "
                                        "builtins.str:'encoding': dict{}, "
                                        "builtins.str:'data-type': builtins.str:'ndarray', "
                                        "builtins.str:'values': ndarray[|i1|(3,)|010203]}}, "
                                        "builtins.str:'coords': dict{}, builtins.str:'attrs': "
                                        "dict{builtins.str:'chunked_with': builtins.str:'(({},), "
                                        "{})'}, builtins.str:'encoding': dict{}}, "
                                        "builtins.str:'/abc': dict{builtins.str:'type': "
                                        "builtins.str:'Dataset', builtins.str:'sizes': "
                                        "dict{builtins.str:'x': builtins.int:3}, "
                                        "builtins.str:'data_vars': dict{builtins.str:'c': "
                                        "dict{builtins.str:'dims': tuple(builtins.str:'x'), "
                                        "builtins.str:'dtype': builtins.str:'int8', "
                                        "builtins.str:'attrs': dict{builtins.str:'a': "
                                        "builtins.int:1}, builtins.str:'encoding': dict{}, "
                                        "builtins.str:'data-type': builtins.str:'ndarray', "
                                        "builtins.str:'values': ndarray[|i1|(3,)|010203]}}, "
                                        "builtins.str:'coords': dict{}, builtins.str:'attrs': "
                                        "dict{builtins.str:'chunked_with': builtins.str:'(({},), "
                                        "{})'}, builtins.str:'encoding': dict{}}, "
                                        "builtins.str:'/abc/sub': dict{builtins.str:'type': "
                                        "builtins.str:'Dataset', builtins.str:'sizes': "
                                        "dict{builtins.str:'y': builtins.int:4}, "
                                        "builtins.str:'data_vars': dict{builtins.str:'e': "
                                        "dict{builtins.str:'dims': tuple(builtins.str:'y'), "
                                        "builtins.str:'dtype': builtins.str:'float64', "
                                        "builtins.str:'attrs': dict{}, builtins.str:'encoding': "
                                        "dict{}, builtins.str:'data-type': builtins.str:'ndarray', "
                                        "builtins.str:'values': "
                                        'ndarray[<f8|(4,)|000000000000e03f000000000000f83f00000000000004400000000000000c40]}}, '
                                        "builtins.str:'coords': dict{}, builtins.str:'attrs': "
                                        "dict{builtins.str:'chunked_with': builtins.str:'(({},), "
                                        "{})'}, builtins.str:'encoding': dict{}}}}, "
                                        'builtins.str:"[([\'c\'], ({},), {}), ([\'c\'], ({},), '
                                        '{}), ([\'e\'], ({},), {})]", builtins.bool:True)',
 'dataset|absolute-root|mixed': "list(raise builtins.ImportError: chunk manager 'dask' is not "
                                "available. Please make sure 'dask' is installed and importable., "
                                "builtins.str:'None', builtins.bool:True)",
 'tree|absolute-root|mixed': "list(raise builtins.ImportError: chunk manager 'dask' is not "
                             "available. Please make sure 'dask' is installed and importable., "
                             "builtins.str:'None', builtins.bool:True)",
 'dataset-recorded|absolute-root|mixed': "list(dict{builtins.str:'type': builtins.str:'Dataset', "
                                         "builtins.str:'sizes': dict{builtins.str:'x': "
                                         "builtins.int:3}, builtins.str:'data_vars': "
                                         "dict{builtins.str:'c': dict{builtins.str:'dims': "
                                         "tuple(builtins.str:'x'), builtins.str:'dtype': "
                                         "builtins.str:'int8', builtins.str:'attrs': "
                                         "dict{builtins.str:'a': builtins.int:1}, "
                                         "builtins.str:'encoding': dict{}, "
                                         "builtins.str:'data-type': builtins.str:'ndarray', "
                                         "builtins.str:'values': ndarray[|i1|(3,)|010203]}}, "
                                         "builtins.str:'coords': dict{}, builtins.str:'attrs': "
                                         "dict{builtins.str:'chunked_with': "
                                         'builtins.str:"(({\'x\': \'auto\'},), {})"}, '
                                         "builtins.str:'encoding': dict{}}, "
                                         'builtins.str:"[([\'c\'], ({\'x\': \'auto\'},), {})]", '
                                         'builtins.bool:True)',
 'tree-recorded|absolute-root|mixed': "list(dict{builtins.str:'type': builtins.str:'DataTree', "
                                      "builtins.str:'name': builtins.NoneType:None, "
                                      "builtins.str:'paths': list(builtins.str:'/', "
                                      "builtins.str:'/abc', builtins.str:'/abc/sub'), "
                                      "builtins.str:'nodes': dict{builtins.str:'/': "
                                      "dict{builtins.str:'type': builtins.str:'Dataset', "
                                      "builtins.str:'sizes': dict{builtins.str:'x': "
                                      "builtins.int:3}, builtins.str:'data_vars': "
                                      "dict{builtins.str:'c': dict{builtins.str:'dims': "
                                      "tuple(builtins.str:'x'), builtins.str:'dtype': "
                                      "builtins.str:'int8', builtins.str:'attrs': "
                                      "dict{builtins.str:'a': builtins.int:1}, "
                                      "builtins.str:'encoding': dict{}, builtins.str:'data-type': "
                                      "builtins.str:'ndarray', builtins.str:'values': "
                                      "ndarray[|i1|(3,)|010203]}}, builtins.str:'coords': dict{}, "
                                      "builtins.str:'attrs': dict{builtins.str:'chunked_with': "
                                      'builtins.str:"(({\'x\': \'auto\'},), {})"}, '
                                      "builtins.str:'encoding': dict{}}, builtins.str:'/abc': "
                                      "dict{builtins.str:'type': builtins.str:'Dataset', "
                                      "builtins.str:'sizes': dict{builtins.str:'x': "
                                      "builtins.int:3}, builtins.str:'data_vars': "
                                      "dict{builtins.str:'c': dict{builtins.str:'dims': "
                                      "tuple(builtins.str:'x'), builtins.str:'dtype': "
                                      "builtins.str:'int8', builtins.str:'attrs': "
                                      "dict{builtins.str:'a': builtins.int:1}, "
                                      "builtins.str:'encoding': dict{}, builtins.str:'data-type': "
                                      "builtins.str:'ndarray', builtins.str:'values': "
                                      "ndarray[|i1|(3,)|010203]}}, builtins.str:'coords': dict{}, "
                                      "builtins.str:'attrs': dict{builtins.str:'chunked_with': "
                                      'builtins.str:"(({\'x\': \'auto\'},), {})"}, '
                                      "builtins.str:'encoding': dict{}}, builtins.str:'/abc/sub': "
                                      "dict{builtins.str:'type': builtins.str:'Dataset', "
                                      "builtins.str:'sizes': dict{builtins.str:'y': "
                                      "builtins.int:4}, builtins.str:'data_vars': "
                                      "dict{builtins.str:'e': dict{builtins.str:'dims': "
                                      "tuple(builtins.str:'y'), builtins.str:'dtype': "
                                      "builtins.str:'float64', builtins.str:'attrs': dict{}, "
                                      "builtins.str:'encoding': dict{}, builtins.str:'data-type': "
                                      "builtins.str:'ndarray', builtins.str:'values': "
                                      'ndarray[<f8|(4,)|000000000000e03f000000000000f83f00000000000004400000000000000c40]}}, '
                                      "builtins.str:'coords': dict{}, builtins.str:'attrs': "
                                      "dict{builtins.str:'chunked_with': builtins.str:'(({},), "
                                      "{})'}, builtins.str:'encoding': dict{}}}}, "
                                      'builtins.str:"[([\'c\'], ({\'x\': \'auto\'},), {}), '
                                      "(['c'], ({'x': 'auto'},), {}), (['e'], ({},), "
                                      '{})]", builtins.bool:True)',
 'dataset|absolute-root|int': "list(raise builtins.AttributeError: 'int' object has no attribute "
                              "'items', builtins.str:'None', builtins.bool:True)",
 'tree|absolute-root|int': "list(raise builtins.AttributeError: 'int' object has no attribute "
                           "'items', builtins.str:'None', builtins.bool:True)",
 'dataset-recorded|absolute-root|int': "list(raise builtins.AttributeError: 'int' object has no "
                                       "attribute 'items', builtins.str:'[]', builtins.bool:True)",
 'tree-recorded|absolute-root|int': "list(raise builtins.AttributeError: 'int' object has no "
                                    "attribute 'items', builtins.str:'[]', builtins.bool:True)",
 'dataset|absolute-root|str': "list(raise builtins.AttributeError: 'str' object has no attribute "
                              "'items', builtins.str:'None', builtins.bool:True)",
 'tree|absolute-root|str': "list(raise builtins.AttributeError: 'str' object has no attribute "
                           "'items', builtins.str:'None', builtins.bool:True)",
 'dataset-recorded|absolute-root|str': "list(raise builtins.AttributeError: 'str' object has no "
                                       "attribute 'items', builtins.str:'[]', builtins.bool:True)",
 'tree-recorded|absolute-root|str': "list(raise builtins.AttributeError: 'str' object has no "
                                    "attribute 'items', builtins.str:'[]', builtins.bool:True)",
 'dataset|absolute-root|list': "list(raise builtins.AttributeError: 'list' object has no attribute "
                               "'items', builtins.str:'None', builtins.bool:True)",
 'tree|absolute-root|list': "list(raise builtins.AttributeError: 'list' object has no attribute "
                            "'items', builtins.str:'None', builtins.bool:True)",
 'dataset-recorded|absolute-root|list': "list(raise builtins.AttributeError: 'list' object has no "
                                        "attribute 'items', builtins.str:'[]', builtins.bool:True)",
 'tree-recorded|absolute-root|list': "list(raise builtins.AttributeError: 'list' object has no "
                                     "attribute 'items', builtins.str:'[]', builtins.bool:True)",
 'dataset|absolute-root|tuple-keys': "list(raise builtins.ImportError: chunk manager 'dask' is not "
                                     "available. Please make sure 'dask' is installed and "
                                     "importable., builtins.str:'None', builtins.bool:True)",
 'tree|absolute-root|tuple-keys': "list(raise builtins.ImportError: chunk manager 'dask' is not "
                                  "available. Please make sure 'dask' is installed and "
                                  "importable., builtins.str:'None', builtins.bool:True)",
 'dataset-recorded|absolute-root|tuple-keys': "list(dict{builtins.str:'type': "
                                              "builtins.str:'Dataset', builtins.str:'sizes': "
                                              "dict{builtins.str:'x': builtins.int:3}, "
                                              "builtins.str:'data_vars': dict{builtins.str:'c': "
                                              "dict{builtins.str:'dims': tuple(builtins.str:'x'), "
                                              "builtins.str:'dtype': builtins.str:'int8', "
                                              "builtins.str:'attrs': dict{builtins.str:'a': "
                                              "builtins.int:1}, builtins.str:'encoding': dict{}, "
                                              "builtins.str:'data-type': builtins.str:'ndarray', "
                                              "builtins.str:'values': ndarray[|i1|(3,)|010203]}}, "
                                              "builtins.str:'coords': dict{}, "
                                              "builtins.str:'attrs': "
                                              "dict{builtins.str:'chunked_with': "
                                              "builtins.str:'(({},), {})'}, "
                                              "builtins.str:'encoding': dict{}}, "
                                              'builtins.str:"[([\'c\'], ({},), {})]", '
                                              'builtins.bool:True)',
 'tree-recorded|absolute-root|tuple-keys': "list(dict{builtins.str:'type': "
                                           "builtins.str:'DataTree', builtins.str:'name': "
                                           "builtins.NoneType:None, builtins.str:'paths': "
                                           "list(builtins.str:'/', builtins.str:'/abc', "
                                           "builtins.str:'/abc/sub'), builtins.str:'nodes': "
                                           "dict{builtins.str:'/': dict{builtins.str:'type': "
                                           "builtins.str:'Dataset', builtins.str:'sizes': "
                                           "dict{builtins.str:'x': builtins.int:3}, "
                                           "builtins.str:'data_vars': dict{builtins.str:'c': "
                                           "dict{builtins.str:'dims': tuple(builtins.str:'x'), "
                                           "builtins.str:'dtype': builtins.str:'int8', "
                                           "builtins.str:'attrs': dict{builtins.str:'a': "
                                           "builtins.int:1}, builtins.str:'encoding': dict{}, "
                                           "builtins.str:'data-type': builtins.str:'ndarray', "
                                           "builtins.str:'values': ndarray[|i1|(3,)|010203]}}, "
                                           "builtins.str:'coords': dict{}, builtins.str:'attrs': "
                                           "dict{builtins.str:'chunked_with': "
                                           "builtins.str:'(({},), {})'}, builtins.str:'encoding': "
                                           "dict{}}, builtins.str:'/abc': "
                                           "dict{builtins.str:'type': builtins.str:'Dataset', "
                                           "builtins.str:'sizes': dict{builtins.str:'x': "
                                           "builtins.int:3}, builtins.str:'data_vars': "
                                           "dict{builtins.str:'c': dict{builtins.str:'dims': "
                                           "tuple(builtins.str:'x'), builtins.str:'dtype': "
                                           "builtins.str:'int8', builtins.str:'attrs': "
                                           "dict{builtins.str:'a': builtins.int:1}, "
                                           "builtins.str:'encoding': dict{}, "
                                           "builtins.str:'data-type': builtins.str:'ndarray', "
                                           "builtins.str:'values': ndarray[|i1|(3,)|010203]}}, "
                                           "builtins.str:'coords': dict{}, builtins.str:'attrs': "
                                           "dict{builtins.str:'chunked_with': "
                                           "builtins.str:'(({},), {})'}, builtins.str:'encoding': "
                                           "dict{}}, builtins.str:'/abc/sub': "
                                           "dict{builtins.str:'type': builtins.str:'Dataset', "
                                           "builtins.str:'sizes': dict{builtins.str:'y': "
                                           "builtins.int:4}, builtins.str:'data_vars': "
                                           "dict{builtins.str:'e': dict{builtins.str:'dims': "
                                           "tuple(builtins.str:'y'), builtins.str:'dtype': "
                                           "builtins.str:'float64', builtins.str:'attrs': dict{}, "
                                           "builtins.str:'encoding': dict{}, "
                                           "builtins.str:'data-type': builtins.str:'ndarray', "
                                           "builtins.str:'values': "
                                           'ndarray[<f8|(4,)|000000000000e03f000000000000f83f00000000000004400000000000000c40]}}, '
                                           "builtins.str:'coords': dict{}, builtins.str:'attrs': "
                                           "dict{builtins.str:'chunked_with': "
                                           "builtins.str:'(({},), {})'}, builtins.str:'encoding': "
                                           'dict{}}}}, builtins.str:"[([\'c\'], ({},), {}), '
                                           '([\'c\'], ({},), {}), ([\'e\'], ({},), {})]", '
                                           'builtins.bool:True)',
 'dataset|nested-bad-coords|none': "list(dict{builtins.str:'type': builtins.str:'Dataset', "
                                   "builtins.str:'sizes': dict{builtins.str:'x': builtins.int:3}, "
                                   "builtins.str:'data_vars': dict{builtins.str:'c': "
                                   "dict{builtins.str:'dims': tuple(builtins.str:'x'), "
                                   "builtins.str:'dtype': builtins.str:'int8', "
                                   "builtins.str:'attrs': dict{builtins.str:'a': builtins.int:1}, "
                                   "builtins.str:'encoding': dict{}, builtins.str:'data-type': "
                                   "builtins.str:'ndarray', builtins.str:'values': "
                                   "ndarray[|i1|(3,)|010203]}}, builtins.str:'coords': dict{}, "
                                   "builtins.str:'attrs': dict{}, builtins.str:'encoding': "
                                   "dict{}}, builtins.str:'None', builtins.bool:True)",
 'tree|nested-bad-coords|none': 'list(raise builtins.ValueError: These variables cannot be found '
                                "in this dataset: ['nope'], builtins.str:'None', "
                                'builtins.bool:True)',
 'dataset|nested-bad-coords|empty': "list(raise builtins.ImportError: chunk manager 'dask' is not "
                                    "available. Please make sure 'dask' is installed and "
                                    "importable., builtins.str:'None', builtins.bool:True)",
 'tree|nested-bad-coords|empty': "list(raise builtins.ImportError: chunk manager 'dask' is not "
                                 "available. Please make sure 'dask' is installed and importable., "
                                 "builtins.str:'None', builtins.bool:True)",
 'dataset-recorded|nested-bad-coords|empty': "list(dict{builtins.str:'type': "
                                             "builtins.str:'Dataset', builtins.str:'sizes': "
                                             "dict{builtins.str:'x': builtins.int:3}, "
                                             "builtins.str:'data_vars': dict{builtins.str:'c': "
                                             "dict{builtins.str:'dims': tuple(builtins.str:'x'), "
                                             "builtins.str:'dtype': builtins.str:'int8', "
                                             "builtins.str:'attrs': dict{builtins.str:'a': "
                                             "builtins.int:1}, builtins.str:'encoding': dict{}, "
                                             "builtins.str:'data-type': builtins.str:'ndarray', "
                                             "builtins.str:'values': ndarray[|i1|(3,)|010203]}}, "
                                             "builtins.str:'coords': dict{}, builtins.str:'attrs': "
                                             "dict{builtins.str:'chunked_with': "
                                             "builtins.str:'(({},), {})'}, "
                                             "builtins.str:'encoding': dict{}}, "
                                             'builtins.str:"[([\'c\'], ({},), {})]", '
                                             'builtins.bool:True)',
 'tree-recorded|nested-bad-coords|empty': 'list(raise builtins.ValueError: These variables cannot '
                                          "be found in this dataset: ['nope'], "
                                          'builtins.str:"[([\'c\'], ({},), {}), ([\'c\'], ({},), '
                                          '{})]", builtins.bool:True)',
 'dataset|nested-bad-coords|x': "list(raise builtins.ImportError: chunk manager 'dask' is not "
                                "available. Please make sure 'dask' is installed and importable., "
                                "builtins.str:'None', builtins.bool:True)",
 'tree|nested-bad-coords|x': "list(raise builtins.ImportError: chunk manager 'dask' is not "
                             "available. Please make sure 'dask' is installed and importable., "
                             "builtins.str:'None', builtins.bool:True)",
 'dataset-recorded|nested-bad-coords|x': "list(dict{builtins.str:'type': builtins.str:'Dataset', "
                                         "builtins.str:'sizes': dict{builtins.str:'x': "
                                         "builtins.int:3}, builtins.str:'data_vars': "
                                         "dict{builtins.str:'c': dict{builtins.str:'dims': "
                                         "tuple(builtins.str:'x'), builtins.str:'dtype': "
                                         "builtins.str:'int8', builtins.str:'attrs': "
                                         "dict{builtins.str:'a': builtins.int:1}, "
                                         "builtins.str:'encoding': dict{}, "
                                         "builtins.str:'data-type': builtins.str:'ndarray', "
                                         "builtins.str:'values': ndarray[|i1|(3,)|010203]}}, "
                                         "builtins.str:'coords': dict{}, builtins.str:'attrs': "
                                         "dict{builtins.str:'chunked_with': "
                                         'builtins.str:"(({\'x\': 1},), {})"}, '
                                         "builtins.str:'encoding': dict{}}, "
                                         'builtins.str:"[([\'c\'], ({\'x\': 1},), {})]", '
                                         'builtins.bool:True)',
 'tree-recorded|nested-bad-coords|x': 'list(raise builtins.ValueError: These variables cannot be '
                                      'found in this dataset: [\'nope\'], builtins.str:"[([\'c\'], '
                                      '({\'x\': 1},), {}), ([\'c\'], ({\'x\': 1},), {})]", '
                                      'builtins.bool:True)',
 'dataset|nested-bad-coords|xy': "list(raise builtins.ImportError: chunk manager 'dask' is not "
                                 "available. Please make sure 'dask' is installed and importable., "
                                 "builtins.str:'None', builtins.bool:True)",
 'tree|nested-bad-coords|xy': "list(raise builtins.ImportError: chunk manager 'dask' is not "
                              "available. Please make sure 'dask' is installed and importable., "
                              "builtins.str:'None', builtins.bool:True)",
 'dataset-recorded|nested-bad-coords|xy': "list(dict{builtins.str:'type': builtins.str:'Dataset', "
                                          "builtins.str:'sizes': dict{builtins.str:'x': "
                                          "builtins.int:3}, builtins.str:'data_vars': "
                                          "dict{builtins.str:'c': dict{builtins.str:'dims': "
                                          "tuple(builtins.str:'x'), builtins.str:'dtype': "
                                          "builtins.str:'int8', builtins.str:'attrs': "
                                          "dict{builtins.str:'a': builtins.int:1}, "
                                          "builtins.str:'encoding': dict{}, "
                                          "builtins.str:'data-type': builtins.str:'ndarray', "
                                          "builtins.str:'values': ndarray[|i1|(3,)|010203]}}, "
                                          "builtins.str:'coords': dict{}, builtins.str:'attrs': "
                                          "dict{builtins.str:'chunked_with': "
                                          'builtins.str:"(({\'x\': 1},), {})"}, '
                                          "builtins.str:'encoding': dict{}}, "
                                          'builtins.str:"[([\'c\'], ({\'x\': 1},), {})]", '
                                          'builtins.bool:True)',
 'tree-recorded|nested-bad-coords|xy': 'list(raise builtins.ValueError: These variables cannot be '
                                       "found in this dataset: ['nope'], "
                                       'builtins.str:"[([\'c\'], ({\'x\': 1},), {}), ([\'c\'], '
                                       '({\'x\': 1},), {})]", builtins.bool:True)',
 'dataset|nested-bad-coords|yx': "list(raise builtins.ImportError: chunk manager 'dask' is not "
                                 "available. Please make sure 'dask' is installed and importable., "
                                 "builtins.str:'None', builtins.bool:True)",
 'tree|nested-bad-coords|yx': "list(raise builtins.ImportError: chunk manager 'dask' is not "
                              "available. Please make sure 'dask' is installed and importable., "
                              "builtins.str:'None', builtins.bool:True)",
 'dataset-recorded|nested-bad-coords|yx': "list(dict{builtins.str:'type': builtins.str:'Dataset', "
                                          "builtins.str:'sizes': dict{builtins.str:'x': "
                                          "builtins.int:3}, builtins.str:'data_vars': "
                                          "dict{builtins.str:'c': dict{builtins.str:'dims': "
                                          "tuple(builtins.str:'x'), builtins.str:'dtype': "
                                          "builtins.str:'int8', builtins.str:'attrs': "
                                          "dict{builtins.str:'a': builtins.int:1}, "
                                          "builtins.str:'encoding': dict{}, "
                                          "builtins.str:'data-type': builtins.str:'ndarray', "
                                          "builtins.str:'values': ndarray[|i1|(3,)|010203]}}, "
                                          "builtins.str:'coords': dict{}, builtins.str:'attrs': "
                                          "dict{builtins.str:'chunked_with': "
                                          'builtins.str:"(({\'x\': -1},), {})"}, '
                                          "builtins.str:'encoding': dict{}}, "
                                          'builtins.str:"[([\'c\'], ({\'x\': -1},), {})]", '
                                          'builtins.bool:True)',
 'tree-recorded|nested-bad-coords|yx': 'list(raise builtins.ValueError: These variables cannot be '
                                       "found in this dataset: ['nope'], "
                                       'builtins.str:"[([\'c\'], ({\'x\': -1},), {}), ([\'c\'], '
                                       '({\'x\': -1},), {})]", builtins.bool:True)',
 'dataset|nested-bad-coords|unknown': "list(raise builtins.ImportError: chunk manager 'dask' is "
                                      "not available. Please make sure 'dask' is installed and "
                                      "importable., builtins.str:'None', builtins.bool:True)",
 'tree|nested-bad-coords|unknown': "list(raise builtins.ImportError: chunk manager 'dask' is not "
                                   "available. Please make sure 'dask' is installed and "
                                   "importable., builtins.str:'None', builtins.bool:True)",
 'dataset-recorded|nested-bad-coords|unknown': "list(dict{builtins.str:'type': "
                                               "builtins.str:'Dataset', builtins.str:'sizes': "
                                               "dict{builtins.str:'x': builtins.int:3}, "
                                               "builtins.str:'data_vars': dict{builtins.str:'c': "
                                               "dict{builtins.str:'dims': tuple(builtins.str:'x'), "
                                               "builtins.str:'dtype': builtins.str:'int8', "
                                               "builtins.str:'attrs': dict{builtins.str:'a': "
                                               "builtins.int:1}, builtins.str:'encoding': dict{}, "
                                               "builtins.str:'data-type': builtins.str:'ndarray', "
                                               "builtins.str:'values': ndarray[|i1|(3,)|010203]}}, "
                                               "builtins.str:'coords': dict{}, "
                                               "builtins.str:'attrs': "
                                               "dict{builtins.str:'chunked_with': "
                                               "builtins.str:'(({},), {})'}, "
                                               "builtins.str:'encoding': dict{}}, "
                                               'builtins.str:"[([\'c\'], ({},), {})]", '
                                               'builtins.bool:True)',
 'tree-recorded|nested-bad-coords|unknown': 'list(raise builtins.ValueError: These variables '
                                            "cannot be found in this dataset: ['nope'], "
                                            'builtins.str:"[([\'c\'], ({},), {}), ([\'c\'], ({},), '
                                            '{})]", builtins.bool:True)',
 'dataset|nested-bad-coords|mixed': "list(raise builtins.ImportError: chunk manager 'dask' is not "
                                    "available. Please make sure 'dask' is installed and "
                                    "importable., builtins.str:'None', builtins.bool:True)",
 'tree|nested-bad-coords|mixed': "list(raise builtins.ImportError: chunk manager 'dask' is not "
                                 "available. Please make sure 'dask' is installed and importable., "
                                 "builtins.str:'None', builtins.bool:True)",
 'dataset-recorded|nested-bad-coords|mixed': "list(dict{builtins.str:'type': "
                                             "builtins.str:'Dataset', builtins.str:'sizes': "
                                             "dict{builtins.str:'x': builtins.int:3}, "
                                             "builtins.str:'data_vars': dict{builtins.str:'c': "
                                             "dict{builtins.str:'dims': tuple(builtins.str:'x'), "
                                             "builtins.str:'dtype': builtins.str:'int8', "
                                             "builtins.str:'attrs': dict{builtins.str:'a': "
                                             "builtins.int:1}, builtins.str:'encoding': dict{}, "
                                             "builtins.str:'data-type': builtins.str:'ndarray', "
                                             "builtins.str:'values': ndarray[|i1|(3,)|010203]}}, "
                                             "builtins.str:'coords': dict{}, builtins.str:'attrs': "
                                             "dict{builtins.str:'chunked_with': "
                                             'builtins.str:"(({\'x\': \'auto\'},), {})"}, '
                                             "builtins.str:'encoding': dict{}}, "
                                             'builtins.str:"[([\'c\'], ({\'x\': \'auto\'},), '
                                             '{})]", builtins.bool:True)',
 'tree-recorded|nested-bad-coords|mixed': 'list(raise builtins.ValueError: These variables cannot '
                                          "be found in this dataset: ['nope'], "
                                          'builtins.str:"[([\'c\'], ({\'x\': \'auto\'},), {}), '
                                          '([\'c\'], ({\'x\': \'auto\'},), {})]", '
                                          'builtins.bool:True)',
 'dataset|nested-bad-coords|int': "list(raise builtins.AttributeError: 'int' object has no "
                                  "attribute 'items', builtins.str:'None', builtins.bool:True)",
 'tree|nested-bad-coords|int': "list(raise builtins.AttributeError: 'int' object has no attribute "
                               "'items', builtins.str:'None', builtins.bool:True)",
 'dataset-recorded|nested-bad-coords|int': "list(raise builtins.AttributeError: 'int' object has "
                                           "no attribute 'items', builtins.str:'[]', "
                                           'builtins.bool:True)',
 'tree-recorded|nested-bad-coords|int': "list(raise builtins.AttributeError: 'int' object has no "
                                        "attribute 'items', builtins.str:'[]', builtins.bool:True)",
 'dataset|nested-bad-coords|str': "list(raise builtins.AttributeError: 'str' object has no "
                                  "attribute 'items', builtins.str:'None', builtins.bool:True)",
 'tree|nested-bad-coords|str': "list(raise builtins.AttributeError: 'str' object has no attribute "
                               "'items', builtins.str:'None', builtins.bool:True)",
 'dataset-recorded|nested-bad-coords|str': "list(raise builtins.AttributeError: 'str' object has "
                                           "no attribute 'items', builtins.str:'[]', "
                                           'builtins.bool:True)',
 'tree-recorded|nested-bad-coords|str': "list(raise builtins.AttributeError: 'str' object has no "
                                        "attribute 'items', builtins.str:'[]', builtins.bool:True)",
 'dataset|nested-bad-coords|list': "list(raise builtins.AttributeError: 'list' object has no "
                                   "attribute 'items', builtins.str:'None', builtins.bool:True)",
 'tree|nested-bad-coords|list': "list(raise builtins.AttributeError: 'list' object has no "
                                "attribute 'items', builtins.str:'None', builtins.bool:True)",
 'dataset-recorded|nested-bad-coords|list': "list(raise builtins.AttributeError: 'list' object has "
                                            "no attribute 'items', builtins.str:'[]', "
                                            'builtins.bool:True)',
 'tree-recorded|nested-bad-coords|list': "list(raise builtins.AttributeError: 'list' object has no "
                                         "attribute 'items', builtins.str:'[]', "
                                         'builtins.bool:True)',
 'dataset|nested-bad-coords|tuple-keys': "list(raise builtins.ImportError: chunk manager 'dask' is "
                                         "not available. Please make sure 'dask' is installed and "
                                         "importable., builtins.str:'None', builtins.bool:True)",
 'tree|nested-bad-coords|tuple-keys': "list(raise builtins.ImportError: chunk manager 'dask' is "
                                      "not available. Please make sure 'dask' is installed and "
                                      "importable., builtins.str:'None', builtins.bool:True)",
 'dataset-recorded|nested-bad-coords|tuple-keys': "list(dict{builtins.str:'type': "
                                                  "builtins.str:'Dataset', builtins.str:'sizes': "
                                                  "dict{builtins.str:'x': builtins.int:3}, "
                                                  "builtins.str:'data_vars': "
                                                  "dict{builtins.str:'c': "
                                                  "dict{builtins.str:'dims': "
                                                  "tuple(builtins.str:'x'), builtins.str:'dtype': "
                                                  "builtins.str:'int8', builtins.str:'attrs': "
                                                  "dict{builtins.str:'a': builtins.int:1}, "
                                                  "builtins.str:'encoding': dict{}, "
                                                  "builtins.str:'data-type': "
                                                  "builtins.str:'ndarray', builtins.str:'values': "
                                                  'ndarray[|i1|(3,)|010203]}}, '
                                                  "builtins.str:'coords': dict{}, "
                                                  "builtins.str:'attrs': "
                                                  "dict{builtins.str:'chunked_with': "
                                                  "builtins.str:'(({},), {})'}, "
                                                  "builtins.str:'encoding': dict{}}, "
                                                  'builtins.str:"[([\'c\'], ({},), {})]", '
                                                  'builtins.bool:True)',
 'tree-recorded|nested-bad-coords|tuple-keys': 'list(raise builtins.ValueError: These variables '
                                               "cannot be found in this dataset: ['nope'], "
                                               'builtins.str:"[([\'c\'], ({},), {}), ([\'c\'], '
                                               '({},), {})]", builtins.bool:True)',
 'dataset|both-bad-coords|none': 'list(raise builtins.ValueError: These variables cannot be found '
                                 "in this dataset: ['root-missing'], builtins.str:'None', "
                                 'builtins.bool:True)',
 'tree|both-bad-coords|none': 'list(raise builtins.ValueError: These variables cannot be found in '
                              "this dataset: ['root-missing'], builtins.str:'None', "
                              'builtins.bool:True)',
 'dataset|both-bad-coords|empty': 'list(raise builtins.ValueError: These variables cannot be found '
                                  "in this dataset: ['root-missing'], builtins.str:'None', "
                                  'builtins.bool:True)',
 'tree|both-bad-coords|empty': 'list(raise builtins.ValueError: These variables cannot be found in '
                               "this dataset: ['root-missing'], builtins.str:'None', "
                               'builtins.bool:True)',
 'dataset-recorded|both-bad-coords|empty': 'list(raise builtins.ValueError: These variables cannot '
                                           "be found in this dataset: ['root-missing'], "
                                           "builtins.str:'[]', builtins.bool:True)",
 'tree-recorded|both-bad-coords|empty': 'list(raise builtins.ValueError: These variables cannot be '
                                        "found in this dataset: ['root-missing'], "
                                        "builtins.str:'[]', builtins.bool:True)",
 'dataset|both-bad-coords|x': 'list(raise builtins.ValueError: These variables cannot be found in '
                              "this dataset: ['root-missing'], builtins.str:'None', "
                              'builtins.bool:True)',
 'tree|both-bad-coords|x': 'list(raise builtins.ValueError: These variables cannot be found in '
                           "this dataset: ['root-missing'], builtins.str:'None', "
                           'builtins.bool:True)',
 'dataset-recorded|both-bad-coords|x': 'list(raise builtins.ValueError: These variables cannot be '
                                       "found in this dataset: ['root-missing'], "
                                       "builtins.str:'[]', builtins.bool:True)",
 'tree-recorded|both-bad-coords|x': 'list(raise builtins.ValueError: These variables cannot be '
                                    "found in this dataset: ['root-missing'], builtins.str:'[]', "
                                    'builtins.bool:True)',
 'dataset|both-bad-coords|xy': 'list(raise builtins.ValueError: These variables cannot be found in '
                               "this dataset: ['root-missing'], builtins.str:'None', "
                               'builtins.bool:True)',
 'tree|both-bad-coords|xy': 'list(raise builtins.ValueError: These variables cannot be found in '
                            "this dataset: ['root-missing'], builtins.str:'None', "
                            'builtins.bool:True)',
 'dataset-recorded|both-bad-coords|xy': 'list(raise builtins.ValueError: These variables cannot be '
                                        "found in this dataset: ['root-missing'], "
                                        "builtins.str:'[]', builtins.bool:True)",
 'tree-recorded|both-bad-coords|xy': 'list(raise builtins.ValueError: These variables cannot be '
                                     "found in this dataset: ['root-missing'], builtins.str:'[]', "
                                     'builtins.bool:True)',
 'dataset|both-bad-coords|yx': 'list(raise builtins.ValueError: These variables cannot be found in '
                               "this dataset: ['root-missing'], builtins.str:'None', "
                               'builtins.bool:True)',
 'tree|both-bad-coords|yx': 'list(raise builtins.ValueError: These variables cannot be found in '
                            "this dataset: ['root-missing'], builtins.str:'None', "
                            'builtins.bool:True)',
 'dataset-recorded|both-bad-coords|yx': 'list(raise builtins.ValueError: These variables cannot be '
                                        "found in this dataset: ['root-missing'], "
                                        "builtins.str:'[]', builtins.bool:True)",
 'tree-recorded|both-bad-coords|yx': 'list(raise builtins.ValueError: These variables cannot be '
                                     "found in this dataset: ['root-missing'], builtins.str:'[]', "
                                     'builtins.bool:True)',
 'dataset|both-bad-coords|unknown': 'list(raise builtins.ValueError: These variables cannot be '
                                    "found in this dataset: ['root-missing'], builtins.str:'None', "
                                    'builtins.bool:True)',
 'tree|both-bad-coords|unknown': 'list(raise builtins.ValueError: These variables cannot be found '
                                 "in this dataset: ['root-missing'], builtins.str:'None', "
                                 'builtins.bool:True)',
 'dataset-recorded|both-bad-coords|unknown': 'list(raise builtins.ValueError: These variables '
                                             "cannot be found in this dataset: ['root-missing'], "
                                             "builtins.str:'[]', builtins.bool:True)",
 'tree-recorded|both-bad-coords|unknown': 'list(raise builtins.ValueError: These variables cannot '
                                          "be found in this dataset: ['root-missing'], "
                                          "builtins.str:'[]', builtins.bool:True)",
 'dataset|both-bad-coords|mixed': 'list(raise builtins.ValueError: These variables cannot be found '
                                  "in this dataset: ['root-missing'], builtins.str:'None', "
                                  'builtins.bool:True)',
 'tree|both-bad-coords|mixed': 'list(raise builtins.ValueError: These variables cannot be found in '
                               "this dataset: ['root-missing'], builtins.str:'None', "
                               'builtins.bool:True)',
 'dataset-recorded|both-bad-coords|mixed': 'list(raise builtins.ValueError: These variables cannot '
                                           "be found in this dataset: ['root-missing'], "
                                           "builtins.str:'[]', builtins.bool:True)",
 'tree-recorded|both-bad-coords|mixed': 'list(raise builtins.ValueError: These variables cannot be '
                                        "found in this dataset: ['root-missing'], "
                                        "builtins.str:'[]', builtins.bool:True)",
 'dataset|both-bad-coords|int': 'list(raise builtins.ValueError: These variables cannot be found '
                                "in this dataset: ['root-missing'], builtins.str:'None', "
                                'builtins.bool:True)',
 'tree|both-bad-coords|int': 'list(raise builtins.ValueError: These variables cannot be found in '
                             "this dataset: ['root-missing'], builtins.str:'None', "
                             'builtins.bool:True)',
 'dataset-recorded|both-bad-coords|int': 'list(raise builtins.ValueError: These variables cannot '
                                         "be found in this dataset: ['root-missing'], "
                                         "builtins.str:'[]', builtins.bool:True)",
 'tree-recorded|both-bad-coords|int': 'list(raise builtins.ValueError: These variables cannot be '
                                      "found in this dataset: ['root-missing'], builtins.str:'[]', "
                                      'builtins.bool:True)',
 'dataset|both-bad-coords|str': 'list(raise builtins.ValueError: These variables cannot be found '
                                "in this dataset: ['root-missing'], builtins.str:'None', "
                                'builtins.bool:True)',
 'tree|both-bad-coords|str': 'list(raise builtins.ValueError: These variables cannot be found in '
                             "this dataset: ['root-missing'], builtins.str:'None', "
                             'builtins.bool:True)',
 'dataset-recorded|both-bad-coords|str': 'list(raise builtins.ValueError: These variables cannot '
                                         "be found in this dataset: ['root-missing'], "
                                         "builtins.str:'[]', builtins.bool:True)",
 'tree-recorded|both-bad-coords|str': 'list(raise builtins.ValueError: These variables cannot be '
                                      "found in this dataset: ['root-missing'], builtins.str:'[]', "
                                      'builtins.bool:True)',
 'dataset|both-bad-coords|list': 'list(raise builtins.ValueError: These variables cannot be found '
                                 "in this dataset: ['root-missing'], builtins.str:'None', "
                                 'builtins.bool:True)',
 'tree|both-bad-coords|list': 'list(raise builtins.ValueError: These variables cannot be found in '
                              "this dataset: ['root-missing'], builtins.str:'None', "
                              'builtins.bool:True)',
 'dataset-recorded|both-bad-coords|list': 'list(raise builtins.ValueError: These variables cannot '
                                          "be found in this dataset: ['root-missing'], "
                                          "builtins.str:'[]', builtins.bool:True)",
 'tree-recorded|both-bad-coords|list': 'list(raise builtins.ValueError: These variables cannot be '
                                       "found in this dataset: ['root-missing'], "
                                       "builtins.str:'[]', builtins.bool:True)",
 'dataset|both-bad-coords|tuple-keys': 'list(raise builtins.ValueError: These variables cannot be '
                                       "found in this dataset: ['root-missing'], "
                                       "builtins.str:'None', builtins.bool:True)",
 'tree|both-bad-coords|tuple-keys': 'list(raise builtins.ValueError: These variables cannot be '
                                    "found in this dataset: ['root-missing'], builtins.str:'None', "
                                    'builtins.bool:True)',
 'dataset-recorded|both-bad-coords|tuple-keys': 'list(raise builtins.ValueError: These variables '
                                                'cannot be found in this dataset: '
                                                "['root-missing'], builtins.str:'[]', "
                                                'builtins.bool:True)',
 'tree-recorded|both-bad-coords|tuple-keys': 'list(raise builtins.ValueError: These variables '
                                             "cannot be found in this dataset: ['root-missing'], "
                                             "builtins.str:'[]', builtins.bool:True)",
 'dataset|root-conflict-nested-bad|none': 'list(raise builtins.ValueError: conflicting sizes for '
                                          "dimension 'x': length 5 on 'bad' and length 3 on {'x': "
                                          "'c'}, builtins.str:'None', builtins.bool:True)",
 'tree|root-conflict-nested-bad|none': 'list(raise builtins.ValueError: conflicting sizes for '
                                       "dimension 'x': length 5 on 'bad' and length 3 on {'x': "
                                       "'c'}, builtins.str:'None', builtins.bool:True)",
 'dataset|root-conflict-nested-bad|empty': 'list(raise builtins.ValueError: conflicting sizes for '
                                           "dimension 'x': length 5 on 'bad' and length 3 on {'x': "
                                           "'c'}, builtins.str:'None', builtins.bool:True)",
 'tree|root-conflict-nested-bad|empty': 'list(raise builtins.ValueError: conflicting sizes for '
                                        "dimension 'x': length 5 on 'bad' and length 3 on {'x': "
                                        "'c'}, builtins.str:'None', builtins.bool:True)",
 'dataset-recorded|root-conflict-nested-bad|empty': 'list(raise builtins.ValueError: conflicting '
                                                    "sizes for dimension 'x': length 5 on 'bad' "
                                                    "and length 3 on {'x': 'c'}, "
                                                    "builtins.str:'[]', builtins.bool:True)",
 'tree-recorded|root-conflict-nested-bad|empty': 'list(raise builtins.ValueError: conflicting '
                                                 "sizes for dimension 'x': length 5 on 'bad' and "
                                                 "length 3 on {'x': 'c'}, builtins.str:'[]', "
                                                 'builtins.bool:True)',
 'dataset|root-conflict-nested-bad|x': 'list(raise builtins.ValueError: conflicting sizes for '
                                       "dimension 'x': length 5 on 'bad' and length 3 on {'x': "
                                       "'c'}, builtins.str:'None', builtins.bool:True)",
 'tree|root-conflict-nested-bad|x': 'list(raise builtins.ValueError: conflicting sizes for '
                                    "dimension 'x': length 5 on 'bad' and length 3 on {'x': 'c'}, "
                                    "builtins.str:'None', builtins.bool:True)",
 'dataset-recorded|root-conflict-nested-bad|x': 'list(raise builtins.ValueError: conflicting sizes '
                                                "for dimension 'x': length 5 on 'bad' and length 3 "
                                                "on {'x': 'c'}, builtins.str:'[]', "
                                                'builtins.bool:True)',
 'tree-recorded|root-conflict-nested-bad|x': 'list(raise builtins.ValueError: conflicting sizes '
                                             "for dimension 'x': length 5 on 'bad' and length 3 on "
                                             "{'x': 'c'}, builtins.str:'[]', builtins.bool:True)",
 'dataset|root-conflict-nested-bad|xy': 'list(raise builtins.ValueError: conflicting sizes for '
                                        "dimension 'x': length 5 on 'bad' and length 3 on {'x': "
                                        "'c'}, builtins.str:'None', builtins.bool:True)",
 'tree|root-conflict-nested-bad|xy': 'list(raise builtins.ValueError: conflicting sizes for '
                                     "dimension 'x': length 5 on 'bad' and length 3 on {'x': 'c'}, "
                                     "builtins.str:'None', builtins.bool:True)",
 'dataset-recorded|root-conflict-nested-bad|xy': 'list(raise builtins.ValueError: conflicting '
                                                 "sizes for dimension 'x': length 5 on 'bad' and "
                                                 "length 3 on {'x': 'c'}, builtins.str:'[]', "
                                                 'builtins.bool:True)',
 'tree-recorded|root-conflict-nested-bad|xy': 'list(raise builtins.ValueError: conflicting sizes '
                                              "for dimension 'x': length 5 on 'bad' and length 3 "
                                              "on {'x': 'c'}, builtins.str:'[]', "
                                              'builtins.bool:True)',
 'dataset|root-conflict-nested-bad|yx': 'list(raise builtins.ValueError: conflicting sizes for '
                                        "dimension 'x': length 5 on 'bad' and length 3 on {'x': "
                                        "'c'}, builtins.str:'None', builtins.bool:True)",
 'tree|root-conflict-nested-bad|yx': 'list(raise builtins.ValueError: conflicting sizes for '
                                     "dimension 'x': length 5 on 'bad' and length 3 on {'x': 'c'}, "
                                     "builtins.str:'None', builtins.bool:True)",
 'dataset-recorded|root-conflict-nested-bad|yx': 'list(raise builtins.ValueError: conflicting '
                                                 "sizes for dimension 'x': length 5 on 'bad' and "
                                                 "length 3 on {'x': 'c'}, builtins.str:'[]', "
                                                 'builtins.bool:True)',
 'tree-recorded|root-conflict-nested-bad|yx': 'list(raise builtins.ValueError: conflicting sizes '
                                              "for dimension 'x': length 5 on 'bad' and length 3 "
                                              "on {'x': 'c'}, builtins.str:'[]', "
                                              'builtins.bool:True)',
 'dataset|root-conflict-nested-bad|unknown': 'list(raise builtins.ValueError: conflicting sizes '
                                             "for dimension 'x': length 5 on 'bad' and length 3 on "
                                             "{'x': 'c'}, builtins.str:'None', builtins.bool:True)",
 'tree|root-conflict-nested-bad|unknown': 'list(raise builtins.ValueError: conflicting sizes for '
                                          "dimension 'x': length 5 on 'bad' and length 3 on {'x': "
                                          "'c'}, builtins.str:'None', builtins.bool:True)",
 'dataset-recorded|root-conflict-nested-bad|unknown': 'list(raise builtins.ValueError: conflicting '
                                                      "sizes for dimension 'x': length 5 on 'bad' "
                                                      "and length 3 on {'x': 'c'}, "
                                                      "builtins.str:'[]', builtins.bool:True)",
 'tree-recorded|root-conflict-nested-bad|unknown': 'list(raise builtins.ValueError: conflicting '
                                                   "sizes for dimension 'x': length 5 on 'bad' and "
                                                   "length 3 on {'x': 'c'}, builtins.str:'[]', "
                                                   'builtins.bool:True)',
 'dataset|root-conflict-nested-bad|mixed': 'list(raise builtins.ValueError: conflicting sizes for '
                                           "dimension 'x': length 5 on 'bad' and length 3 on {'x': "
                                           "'c'}, builtins.str:'None', builtins.bool:True)",
 'tree|root-conflict-nested-bad|mixed': 'list(raise builtins.ValueError: conflicting sizes for '
                                        "dimension 'x': length 5 on 'bad' and length 3 on {'x': "
                                        "'c'}, builtins.str:'None', builtins.bool:True)",
 'dataset-recorded|root-conflict-nested-bad|mixed': 'list(raise builtins.ValueError: conflicting '
                                                    "sizes for dimension 'x': length 5 on 'bad' "
                                                    "and length 3 on {'x': 'c'}, "
                                                    "builtins.str:'[]', builtins.bool:True)",
 'tree-recorded|root-conflict-nested-bad|mixed': 'list(raise builtins.ValueError: conflicting '
                                                 "sizes for dimension 'x': length 5 on 'bad' and "
                                                 "length 3 on {'x': 'c'}, builtins.str:'[]', "
                                                 'builtins.bool:True)',
 'dataset|root-conflict-nested-bad|int': 'list(raise builtins.ValueError: conflicting sizes for '
                                         "dimension 'x': length 5 on 'bad' and length 3 on {'x': "
                                         "'c'}, builtins.str:'None', builtins.bool:True)",
 'tree|root-conflict-nested-bad|int': 'list(raise builtins.ValueError: conflicting sizes for '
                                      "dimension 'x': length 5 on 'bad' and length 3 on {'x': "
                                      "'c'}, builtins.str:'None', builtins.bool:True)",
 'dataset-recorded|root-conflict-nested-bad|int': 'list(raise builtins.ValueError: conflicting '
                                                  "sizes for dimension 'x': length 5 on 'bad' and "
                                                  "length 3 on {'x': 'c'}, builtins.str:'[]', "
                                                  'builtins.bool:True)',
 'tree-recorded|root-conflict-nested-bad|int': 'list(raise builtins.ValueError: conflicting sizes '
                                               "for dimension 'x': length 5 on 'bad' and length 3 "
                                               "on {'x': 'c'}, builtins.str:'[]', "
                                               'builtins.bool:True)',
 'dataset|root-conflict-nested-bad|str': 'list(raise builtins.ValueError: conflicting sizes for '
                                         "dimension 'x': length 5 on 'bad' and length 3 on {'x': "
                                         "'c'}, builtins.str:'None', builtins.bool:True)",
 'tree|root-conflict-nested-bad|str': 'list(raise builtins.ValueError: conflicting sizes for '
                                      "dimension 'x': length 5 on 'bad' and length 3 on {'x': "
                                      "'c'}, builtins.str:'None', builtins.bool:True)",
 'dataset-recorded|root-conflict-nested-bad|str': 'list(raise builtins.ValueError: conflicting '
                                                  "sizes for dimension 'x': length 5 on 'bad' and "
                                                  "length 3 on {'x': 'c'}, builtins.str:'[]', "
                                                  'builtins.bool:True)',
 'tree-recorded|root-conflict-nested-bad|str': 'list(raise builtins.ValueError: conflicting sizes '
                                               "for dimension 'x': length 5 on 'bad' and length 3 "
                                               "on {'x': 'c'}, builtins.str:'[]', "
                                               'builtins.bool:True)',
 'dataset|root-conflict-nested-bad|list': 'list(raise builtins.ValueError: conflicting sizes for '
                                          "dimension 'x': length 5 on 'bad' and length 3 on {'x': "
                                          "'c'}, builtins.str:'None', builtins.bool:True)",
 'tree|root-conflict-nested-bad|list': 'list(raise builtins.ValueError: conflicting sizes for '
                                       "dimension 'x': length 5 on 'bad' and length 3 on {'x': "
                                       "'c'}, builtins.str:'None', builtins.bool:True)",
 'dataset-recorded|root-conflict-nested-bad|list': 'list(raise builtins.ValueError: conflicting '
                                                   "sizes for dimension 'x': length 5 on 'bad' and "
                                                   "length 3 on {'x': 'c'}, builtins.str:'[]', "
                                                   'builtins.bool:True)',
 'tree-recorded|root-conflict-nested-bad|list': 'list(raise builtins.ValueError: conflicting sizes '
                                                "for dimension 'x': length 5 on 'bad' and length 3 "
                                                "on {'x': 'c'}, builtins.str:'[]', "
                                                'builtins.bool:True)',
 'dataset|root-conflict-nested-bad|tuple-keys': 'list(raise builtins.ValueError: conflicting sizes '
                                                "for dimension 'x': length 5 on 'bad' and length 3 "
                                                "on {'x': 'c'}, builtins.str:'None', "
                                                'builtins.bool:True)',
 'tree|root-conflict-nested-bad|tuple-keys': 'list(raise builtins.ValueError: conflicting sizes '
                                             "for dimension 'x': length 5 on 'bad' and length 3 on "
                                             "{'x': 'c'}, builtins.str:'None', builtins.bool:True)",
 'dataset-recorded|root-conflict-nested-bad|tuple-keys': 'list(raise builtins.ValueError: '
                                                         "conflicting sizes for dimension 'x': "
                                                         "length 5 on 'bad' and length 3 on {'x': "
                                                         "'c'}, builtins.str:'[]', "
                                                         'builtins.bool:True)',
 'tree-recorded|root-conflict-nested-bad|tuple-keys': 'list(raise builtins.ValueError: conflicting '
                                                      "sizes for dimension 'x': length 5 on 'bad' "
                                                      "and length 3 on {'x': 'c'}, "
                                                      "builtins.str:'[]', builtins.bool:True)",
 'dataset|nested-conflict|none': "list(dict{builtins.str:'type': builtins.str:'Dataset', "
                                 "builtins.str:'sizes': dict{builtins.str:'x': builtins.int:3}, "
                                 "builtins.str:'data_vars': dict{builtins.str:'c': "
                                 "dict{builtins.str:'dims': tuple(builtins.str:'x'), "
                                 "builtins.str:'dtype': builtins.str:'int8', builtins.str:'attrs': "
                                 "dict{builtins.str:'a': builtins.int:1}, builtins.str:'encoding': "
                                 "dict{}, builtins.str:'data-type': builtins.str:'ndarray', "
                                 "builtins.str:'values': ndarray[|i1|(3,)|010203]}}, "
                                 "builtins.str:'coords': dict{}, builtins.str:'attrs': dict{}, "
                                 "builtins.str:'encoding': dict{}}, builtins.str:'None', "
                                 'builtins.bool:True)',
 'tree|nested-conflict|none': 'list(raise builtins.ValueError: conflicting sizes for dimension '
                              "'y': length 2 on 'bad' and length 4 on {'y': 'e'}, "
                              "builtins.str:'None', builtins.bool:True)",
 'dataset|nested-conflict|empty': "list(raise builtins.ImportError: chunk manager 'dask' is not "
                                  "available. Please make sure 'dask' is installed and "
                                  "importable., builtins.str:'None', builtins.bool:True)",
 'tree|nested-conflict|empty': "list(raise builtins.ImportError: chunk manager 'dask' is not "
                               "available. Please make sure 'dask' is installed and importable., "
                               "builtins.str:'None', builtins.bool:True)",
 'dataset-recorded|nested-conflict|empty': "list(dict{builtins.str:'type': builtins.str:'Dataset', "
                                           "builtins.str:'sizes': dict{builtins.str:'x': "
                                           "builtins.int:3}, builtins.str:'data_vars': "
                                           "dict{builtins.str:'c': dict{builtins.str:'dims': "
                                           "tuple(builtins.str:'x'), builtins.str:'dtype': "
                                           "builtins.str:'int8', builtins.str:'attrs': "
                                           "dict{builtins.str:'a': builtins.int:1}, "
                                           "builtins.str:'encoding': dict{}, "
                                           "builtins.str:'data-type': builtins.str:'ndarray', "
                                           "builtins.str:'values': ndarray[|i1|(3,)|010203]}}, "
                                           "builtins.str:'coords': dict{}, builtins.str:'attrs': "
                                           "dict{builtins.str:'chunked_with': "
                                           "builtins.str:'(({},), {})'}, builtins.str:'encoding': "
                                           'dict{}}, builtins.str:"[([\'c\'], ({},), {})]", '
                                           'builtins.bool:True)',
 'tree-recorded|nested-conflict|empty': 'list(raise builtins.ValueError: conflicting sizes for '
                                        "dimension 'y': length 2 on 'bad' and length 4 on {'y': "
                                        '\'e\'}, builtins.str:"[([\'c\'], ({},), {}), ([\'c\'], '
                                        '({},), {})]", builtins.bool:True)',
 'dataset|nested-conflict|x': "list(raise builtins.ImportError: chunk manager 'dask' is not "
                              "available. Please make sure 'dask' is installed and importable., "
                              "builtins.str:'None', builtins.bool:True)",
 'tree|nested-conflict|x': "list(raise builtins.ImportError: chunk manager 'dask' is not "
                           "available. Please make sure 'dask' is installed and importable., "
                           "builtins.str:'None', builtins.bool:True)",
 'dataset-recorded|nested-conflict|x': "list(dict{builtins.str:'type': builtins.str:'Dataset', "
                                       "builtins.str:'sizes': dict{builtins.str:'x': "
                                       "builtins.int:3}, builtins.str:'data_vars': "
                                       "dict{builtins.str:'c': dict{builtins.str:'dims': "
                                       "tuple(builtins.str:'x'), builtins.str:'dtype': "
                                       "builtins.str:'int8', builtins.str:'attrs': "
                                       "dict{builtins.str:'a': builtins.int:1}, "
                                       "builtins.str:'encoding': dict{}, builtins.str:'data-type': "
                                       "builtins.str:'ndarray', builtins.str:'values': "
                                       "ndarray[|i1|(3,)|010203]}}, builtins.str:'coords': dict{}, "
                                       "builtins.str:'attrs': dict{builtins.str:'chunked_with': "
                                       'builtins.str:"(({\'x\': 1},), {})"}, '
                                       "builtins.str:'encoding': dict{}}, "
                                       'builtins.str:"[([\'c\'], ({\'x\': 1},), {})]", '
                                       'builtins.bool:True)',
 'tree-recorded|nested-conflict|x': 'list(raise builtins.ValueError: conflicting sizes for '
                                    "dimension 'y': length 2 on 'bad' and length 4 on {'y': 'e'}, "
                                    'builtins.str:"[([\'c\'], ({\'x\': 1},), {}), ([\'c\'], '
                                    '({\'x\': 1},), {})]", builtins.bool:True)',
 'dataset|nested-conflict|xy': "list(raise builtins.ImportError: chunk manager 'dask' is not "
                               "available. Please make sure 'dask' is installed and importable., "
                               "builtins.str:'None', builtins.bool:True)",
 'tree|nested-conflict|xy': "list(raise builtins.ImportError: chunk manager 'dask' is not "
                            "available. Please make sure 'dask' is installed and importable., "
                            "builtins.str:'None', builtins.bool:True)",
 'dataset-recorded|nested-conflict|xy': "list(dict{builtins.str:'type': builtins.str:'Dataset', "
                                        "builtins.str:'sizes': dict{builtins.str:'x': "
                                        "builtins.int:3}, builtins.str:'data_vars': "
                                        "dict{builtins.str:'c': dict{builtins.str:'dims': "
                                        "tuple(builtins.str:'x'), builtins.str:'dtype': "
                                        "builtins.str:'int8', builtins.str:'attrs': "
                                        "dict{builtins.str:'a': builtins.int:1}, "
                                        "builtins.str:'encoding': dict{}, "
                                        "builtins.str:'data-type': builtins.str:'ndarray', "
                                        "builtins.str:'values': ndarray[|i1|(3,)|010203]}}, "
                                        "builtins.str:'coords': dict{}, builtins.str:'attrs': "
                                        "dict{builtins.str:'chunked_with': "
                                        'builtins.str:"(({\'x\': 1},), {})"}, '
                                        "builtins.str:'encoding': dict{}}, "
                                        'builtins.str:"[([\'c\'], ({\'x\': 1},), {})]", '
                                        'builtins.bool:True)',
 'tree-recorded|nested-conflict|xy': 'list(raise builtins.ValueError: conflicting sizes for '
                                     "dimension 'y': length 2 on 'bad' and length 4 on {'y': 'e'}, "
                                     'builtins.str:"[([\'c\'], ({\'x\': 1},), {}), ([\'c\'], '
                                     '({\'x\': 1},), {})]", builtins.bool:True)',
 'dataset|nested-conflict|yx': "list(raise builtins.ImportError: chunk manager 'dask' is not "
                               "available. Please make sure 'dask' is installed and importable., "
                               "builtins.str:'None', builtins.bool:True)",
 'tree|nested-conflict|yx': "list(raise builtins.ImportError: chunk manager 'dask' is not "
                            "available. Please make sure 'dask' is installed and importable., "
                            "builtins.str:'None', builtins.bool:True)",
 'dataset-recorded|nested-conflict|yx': "list(dict{builtins.str:'type': builtins.str:'Dataset', "
                                        "builtins.str:'sizes': dict{builtins.str:'x': "
                                        "builtins.int:3}, builtins.str:'data_vars': "
                                        "dict{builtins.str:'c': dict{builtins.str:'dims': "
                                        "tuple(builtins.str:'x'), builtins.str:'dtype': "
                                        "builtins.str:'int8', builtins.str:'attrs': "
                                        "dict{builtins.str:'a': builtins.int:1}, "
                                        "builtins.str:'encoding': dict{}, "
                                        "builtins.str:'data-type': builtins.str:'ndarray', "
                                        "builtins.str:'values': ndarray[|i1|(3,)|010203]}}, "
                                        "builtins.str:'coords': dict{}, builtins.str:'attrs': "
                                        "dict{builtins.str:'chunked_with': "
                                        'builtins.str:"(({\'x\': -1},), {})"}, '
                                        "builtins.str:'encoding': dict{}}, "
                                        'builtins.str:"[([\'c\'], ({\'x\': -1},), {})]", '
                                        'builtins.bool:True)',
 'tree-recorded|nested-conflict|yx': 'list(raise builtins.ValueError: conflicting sizes for '
                                     "dimension 'y': length 2 on 'bad' and length 4 on {'y': 'e'}, "
                                     'builtins.str:"[([\'c\'], ({\'x\': -1},), {}), ([\'c\'], '
                                     '({\'x\': -1},), {})]", builtins.bool:True)',
 'dataset|nested-conflict|unknown': "list(raise builtins.ImportError: chunk manager 'dask' is not "
                                    "available. Please make sure 'dask' is installed and "
                                    "importable., builtins.str:'None', builtins.bool:True)",
 'tree|nested-conflict|unknown': "list(raise builtins.ImportError: chunk manager 'dask' is not "
                                 "available. Please make sure 'dask' is installed and importable., "
                                 "builtins.str:'None', builtins.bool:True)",
 'dataset-recorded|nested-conflict|unknown': "list(dict{builtins.str:'type': "
                                             "builtins.str:'Dataset', builtins.str:'sizes': "
                                             "dict{builtins.str:'x': builtins.int:3}, "
                                             "builtins.str:'data_vars': dict{builtins.str:'c': "
                                             "dict{builtins.str:'dims': tuple(builtins.str:'x'), "
                                             "builtins.str:'dtype': builtins.str:'int8', "
                                             "builtins.str:'attrs': dict{builtins.str:'a': "
                                             "builtins.int:1}, builtins.str:'encoding': dict{}, "
                                             "builtins.str:'data-type': builtins.str:'ndarray', "
                                             "builtins.str:'values': ndarray[|i1|(3,)|010203]}}, "
                                             "builtins.str:'coords': dict{}, builtins.str:'attrs': "
                                             "dict{builtins.str:'chunked_with': "
                                             "builtins.str:'(({},), {})'}, "
                                             "builtins.str:'encoding': dict{}}, "
                                             'builtins.str:"[([\'c\'], ({},), {})]", '
                                             'builtins.bool:True)',
 'tree-recorded|nested-conflict|unknown': 'list(raise builtins.ValueError: conflicting sizes for '
                                          "dimension 'y': length 2 on 'bad' and length 4 on {'y': "
                                          '\'e\'}, builtins.str:"[([\'c\'], ({},), {}), ([\'c\'], '
                                          '({},), {})]", builtins.bool:True)',
 'dataset|nested-conflict|mixed': "list(raise builtins.ImportError: chunk manager 'dask' is not "
                                  "available. Please make sure 'dask' is installed and "
                                  "importable., builtins.str:'None', builtins.bool:True)",
 'tree|nested-conflict|mixed': "list(raise builtins.ImportError: chunk manager 'dask' is not "
                               "available. Please make sure 'dask' is installed and importable., "
                               "builtins.str:'None', builtins.bool:True)",
 'dataset-recorded|nested-conflict|mixed': "list(dict{builtins.str:'type': builtins.str:'Dataset', "
                                           "builtins.str:'sizes': dict{builtins.str:'x': "
                                           "builtins.int:3}, builtins.str:'data_vars': "
                                           "dict{builtins.str:'c': dict{builtins.str:'dims': "
                                           "tuple(builtins.str:'x'), builtins.str:'dtype': "
                                           "builtins.str:'int8', builtins.str:'attrs': "
                                           "dict{builtins.str:'a': builtins.int:1}, "
                                           "builtins.str:'encoding': dict{}, "
                                           "builtins.str:'data-type': builtins.str:'ndarray', "
                                           "builtins.str:'values': ndarray[|i1|(3,)|010203]}}, "
                                           "builtins.str:'coords': dict{}, builtins.str:'attrs': "
                                           "dict{builtins.str:'chunked_with': "
                                           'builtins.str:"(({\'x\': \'auto\'},), {})"}, '
                                           "builtins.str:'encoding': dict{}}, "
                                           'builtins.str:"[([\'c\'], ({\'x\': \'auto\'},), {})]", '
                                           'builtins.bool:True)',
 'tree-recorded|nested-conflict|mixed': 'list(raise builtins.ValueError: conflicting sizes for '
                                        "dimension 'y': length 2 on 'bad' and length 4 on {'y': "
                                        '\'e\'}, builtins.str:"[([\'c\'], ({\'x\': \'auto\'},), '
                                        '{}), ([\'c\'], ({\'x\': \'auto\'},), {})]", '
                                        'builtins.bool:True)',
 'dataset|nested-conflict|int': "list(raise builtins.AttributeError: 'int' object has no attribute "
                                "'items', builtins.str:'None', builtins.bool:True)",
 'tree|nested-conflict|int': "list(raise builtins.AttributeError: 'int' object has no attribute "
                             "'items', builtins.str:'None', builtins.bool:True)",
 'dataset-recorded|nested-conflict|int': "list(raise builtins.AttributeError: 'int' object has no "
                                         "attribute 'items', builtins.str:'[]', "
                                         'builtins.bool:True)',
 'tree-recorded|nested-conflict|int': "list(raise builtins.AttributeError: 'int' object has no "
                                      "attribute 'items', builtins.str:'[]', builtins.bool:True)",
 'dataset|nested-conflict|str': "list(raise builtins.AttributeError: 'str' object has no attribute "
                                "'items', builtins.str:'None', builtins.bool:True)",
 'tree|nested-conflict|str': "list(raise builtins.AttributeError: 'str' object has no attribute "
                             "'items', builtins.str:'None', builtins.bool:True)",
 'dataset-recorded|nested-conflict|str': "list(raise builtins.AttributeError: 'str' object has no "
                                         "attribute 'items', builtins.str:'[]', "
                                         'builtins.bool:True)',
 'tree-recorded|nested-conflict|str': "list(raise builtins.AttributeError: 'str' object has no "
                                      "attribute 'items', builtins.str:'[]', builtins.bool:True)",
 'dataset|nested-conflict|list': "list(raise builtins.AttributeError: 'list' object has no "
                                 "attribute 'items', builtins.str:'None', builtins.bool:True)",
 'tree|nested-conflict|list': "list(raise builtins.AttributeError: 'list' object has no attribute "
                              "'items', builtins.str:'None', builtins.bool:True)",
 'dataset-recorded|nested-conflict|list': "list(raise builtins.AttributeError: 'list' object has "
                                          "no attribute 'items', builtins.str:'[]', "
                                          'builtins.bool:True)',
 'tree-recorded|nested-conflict|list': "list(raise builtins.AttributeError: 'list' object has no "
                                       "attribute 'items', builtins.str:'[]', builtins.bool:True)",
 'dataset|nested-conflict|tuple-keys': "list(raise builtins.ImportError: chunk manager 'dask' is "
                                       "not available. Please make sure 'dask' is installed and "
                                       "importable., builtins.str:'None', builtins.bool:True)",
 'tree|nested-conflict|tuple-keys': "list(raise builtins.ImportError: chunk manager 'dask' is not "
                                    "available. Please make sure 'dask' is installed and "
                                    "importable., builtins.str:'None', builtins.bool:True)",
 'dataset-recorded|nested-conflict|tuple-keys': "list(dict{builtins.str:'type': "
                                                "builtins.str:'Dataset', builtins.str:'sizes': "
                                                "dict{builtins.str:'x': builtins.int:3}, "
                                                "builtins.str:'data_vars': dict{builtins.str:'c': "
                                                "dict{builtins.str:'dims': "
                                                "tuple(builtins.str:'x'), builtins.str:'dtype': "
                                                "builtins.str:'int8', builtins.str:'attrs': "
                                                "dict{builtins.str:'a': builtins.int:1}, "
                                                "builtins.str:'encoding': dict{}, "
                                                "builtins.str:'data-type': builtins.str:'ndarray', "
                                                "builtins.str:'values': "
                                                'ndarray[|i1|(3,)|010203]}}, '
                                                "builtins.str:'coords': dict{}, "
                                                "builtins.str:'attrs': "
                                                "dict{builtins.str:'chunked_with': "
                                                "builtins.str:'(({},), {})'}, "
                                                "builtins.str:'encoding': dict{}}, "
                                                'builtins.str:"[([\'c\'], ({},), {})]", '
                                                'builtins.bool:True)',
 'tree-recorded|nested-conflict|tuple-keys': 'list(raise builtins.ValueError: conflicting sizes '
                                             "for dimension 'y': length 2 on 'bad' and length 4 on "
                                             '{\'y\': \'e\'}, builtins.str:"[([\'c\'], ({},), {}), '
                                             '([\'c\'], ({},), {})]", builtins.bool:True)',
 'dataset-default': "dict{builtins.str:'type': builtins.str:'Dataset', builtins.str:'sizes': "
                    "dict{builtins.str:'x': builtins.int:3, builtins.str:'y': builtins.int:4}, "
                    "builtins.str:'data_vars': dict{builtins.str:'c': dict{builtins.str:'dims': "
                    "tuple(builtins.str:'x'), builtins.str:'dtype': builtins.str:'int8', "
                    "builtins.str:'attrs': dict{builtins.str:'a': builtins.int:1}, "
                    "builtins.str:'encoding': dict{}, builtins.str:'data-type': "
                    "builtins.str:'ndarray', builtins.str:'values': ndarray[|i1|(3,)|010203]}}, "
                    "builtins.str:'coords': dict{builtins.str:'d': dict{builtins.str:'dims': "
                    "tuple(builtins.str:'x', builtins.str:'y'), builtins.str:'dtype': "
                    "builtins.str:'int64', builtins.str:'attrs': dict{builtins.str:'b': "
                    "builtins.str:'abc'}, builtins.str:'encoding': dict{}, "
                    "builtins.str:'data-type': builtins.str:'ndarray', builtins.str:'values': "
                    'ndarray[<i8|(3, '
                    '4)|00000000000000000100000000000000020000000000000003000000000000000400000000000000050000000000000006000000000000000700000000000000080000000000000009000000000000000a000000000000000b00000000000000]}}, '
                    "builtins.str:'attrs': dict{}, builtins.str:'encoding': dict{}}",
 'dataset-positional': "dict{builtins.str:'type': builtins.str:'Dataset', builtins.str:'sizes': "
                       "dict{builtins.str:'x': builtins.int:3, builtins.str:'y': builtins.int:4}, "
                       "builtins.str:'data_vars': dict{builtins.str:'c': dict{builtins.str:'dims': "
                       "tuple(builtins.str:'x'), builtins.str:'dtype': builtins.str:'int8', "
                       "builtins.str:'attrs': dict{builtins.str:'a': builtins.int:1}, "
                       "builtins.str:'encoding': dict{}, builtins.str:'data-type': "
                       "builtins.str:'ndarray', builtins.str:'values': ndarray[|i1|(3,)|010203]}}, "
                       "builtins.str:'coords': dict{builtins.str:'d': dict{builtins.str:'dims': "
                       "tuple(builtins.str:'x', builtins.str:'y'), builtins.str:'dtype': "
                       "builtins.str:'int64', builtins.str:'attrs': dict{builtins.str:'b': "
                       "builtins.str:'abc'}, builtins.str:'encoding': dict{}, "
                       "builtins.str:'data-type': builtins.str:'ndarray', builtins.str:'values': "
                       'ndarray[<i8|(3, '
                       '4)|00000000000000000100000000000000020000000000000003000000000000000400000000000000050000000000000006000000000000000700000000000000080000000000000009000000000000000a000000000000000b00000000000000]}}, '
                       "builtins.str:'attrs': dict{}, builtins.str:'encoding': dict{}}",
 'dataset-kw': "dict{builtins.str:'type': builtins.str:'Dataset', builtins.str:'sizes': "
               "dict{builtins.str:'x': builtins.int:3, builtins.str:'y': builtins.int:4}, "
               "builtins.str:'data_vars': dict{builtins.str:'c': dict{builtins.str:'dims': "
               "tuple(builtins.str:'x'), builtins.str:'dtype': builtins.str:'int8', "
               "builtins.str:'attrs': dict{builtins.str:'a': builtins.int:1}, "
               "builtins.str:'encoding': dict{}, builtins.str:'data-type': builtins.str:'ndarray', "
               "builtins.str:'values': ndarray[|i1|(3,)|010203]}}, builtins.str:'coords': "
               "dict{builtins.str:'d': dict{builtins.str:'dims': tuple(builtins.str:'x', "
               "builtins.str:'y'), builtins.str:'dtype': builtins.str:'int64', "
               "builtins.str:'attrs': dict{builtins.str:'b': builtins.str:'abc'}, "
               "builtins.str:'encoding': dict{}, builtins.str:'data-type': builtins.str:'ndarray', "
               "builtins.str:'values': ndarray[<i8|(3, "
               '4)|00000000000000000100000000000000020000000000000003000000000000000400000000000000050000000000000006000000000000000700000000000000080000000000000009000000000000000a000000000000000b00000000000000]}}, '
               "builtins.str:'attrs': dict{}, builtins.str:'encoding': dict{}}",
 'tree-default': "dict{builtins.str:'type': builtins.str:'DataTree', builtins.str:'name': "
                 "builtins.NoneType:None, builtins.str:'paths': list(builtins.str:'/', "
                 "builtins.str:'/d'), builtins.str:'nodes': dict{builtins.str:'/': "
                 "dict{builtins.str:'type': builtins.str:'Dataset', builtins.str:'sizes': "
                 "dict{builtins.str:'x': builtins.int:3}, builtins.str:'data_vars': "
                 "dict{builtins.str:'c': dict{builtins.str:'dims': tuple(builtins.str:'x'), "
                 "builtins.str:'dtype': builtins.str:'int8', builtins.str:'attrs': "
                 "dict{builtins.str:'a': builtins.int:1}, builtins.str:'encoding': dict{}, "
                 "builtins.str:'data-type': builtins.str:'ndarray', builtins.str:'values': "
                 "ndarray[|i1|(3,)|010203]}}, builtins.str:'coords': dict{}, builtins.str:'attrs': "
                 "dict{}, builtins.str:'encoding': dict{}}, builtins.str:'/d': "
                 "dict{builtins.str:'type': builtins.str:'Dataset', builtins.str:'sizes': "
                 "dict{builtins.str:'x': builtins.int:3, builtins.str:'y': builtins.int:4}, "
                 "builtins.str:'data_vars': dict{builtins.str:'e': dict{builtins.str:'dims': "
                 "tuple(builtins.str:'x', builtins.str:'y'), builtins.str:'dtype': "
                 "builtins.str:'int64', builtins.str:'attrs': dict{builtins.str:'b': "
                 "builtins.str:'abc'}, builtins.str:'encoding': dict{}, builtins.str:'data-type': "
                 "builtins.str:'ndarray', builtins.str:'values': ndarray[<i8|(3, "
                 '4)|00000000000000000100000000000000020000000000000003000000000000000400000000000000050000000000000006000000000000000700000000000000080000000000000009000000000000000a000000000000000b00000000000000]}}, '
                 "builtins.str:'coords': dict{}, builtins.str:'attrs': dict{}, "
                 "builtins.str:'encoding': dict{}}}}",
 'tree-positional': "dict{builtins.str:'type': builtins.str:'DataTree', builtins.str:'name': "
                    "builtins.NoneType:None, builtins.str:'paths': list(builtins.str:'/', "
                    "builtins.str:'/d'), builtins.str:'nodes': dict{builtins.str:'/': "
                    "dict{builtins.str:'type': builtins.str:'Dataset', builtins.str:'sizes': "
                    "dict{builtins.str:'x': builtins.int:3}, builtins.str:'data_vars': "
                    "dict{builtins.str:'c': dict{builtins.str:'dims': tuple(builtins.str:'x'), "
                    "builtins.str:'dtype': builtins.str:'int8', builtins.str:'attrs': "
                    "dict{builtins.str:'a': builtins.int:1}, builtins.str:'encoding': dict{}, "
                    "builtins.str:'data-type': builtins.str:'ndarray', builtins.str:'values': "
                    "ndarray[|i1|(3,)|010203]}}, builtins.str:'coords': dict{}, "
                    "builtins.str:'attrs': dict{}, builtins.str:'encoding': dict{}}, "
                    "builtins.str:'/d': dict{builtins.str:'type': builtins.str:'Dataset', "
                    "builtins.str:'sizes': dict{builtins.str:'x': builtins.int:3, "
                    "builtins.str:'y': builtins.int:4}, builtins.str:'data_vars': "
                    "dict{builtins.str:'e': dict{builtins.str:'dims': tuple(builtins.str:'x', "
                    "builtins.str:'y'), builtins.str:'dtype': builtins.str:'int64', "
                    "builtins.str:'attrs': dict{builtins.str:'b': builtins.str:'abc'}, "
                    "builtins.str:'encoding': dict{}, builtins.str:'data-type': "
                    "builtins.str:'ndarray', builtins.str:'values': ndarray[<i8|(3, "
                    '4)|00000000000000000100000000000000020000000000000003000000000000000400000000000000050000000000000006000000000000000700000000000000080000000000000009000000000000000a000000000000000b00000000000000]}}, '
                    "builtins.str:'coords': dict{}, builtins.str:'attrs': dict{}, "
                    "builtins.str:'encoding': dict{}}}}",
 'tree-kw': "dict{builtins.str:'type': builtins.str:'DataTree', builtins.str:'name': "
            "builtins.NoneType:None, builtins.str:'paths': list(builtins.str:'/', "
            "builtins.str:'/imagery', builtins.str:'/metadata', builtins.str:'/imagery/HH', "
            "builtins.str:'/imagery/HV', builtins.str:'/metadata/a', "
            "builtins.str:'/metadata/a/b'), builtins.str:'nodes': dict{builtins.str:'/': "
            "dict{builtins.str:'type': builtins.str:'Dataset', builtins.str:'sizes': "
            "dict{builtins.str:'y': builtins.int:4}, builtins.str:'data_vars': "
            "dict{builtins.str:'top': dict{builtins.str:'dims': tuple(builtins.str:'y'), "
            "builtins.str:'dtype': builtins.str:'float64', builtins.str:'attrs': dict{}, "
            "builtins.str:'encoding': dict{}, builtins.str:'data-type': builtins.str:'ndarray', "
            "builtins.str:'values': "
            'ndarray[<f8|(4,)|000000000000e03f000000000000f83f00000000000004400000000000000c40]}}, '
            "builtins.str:'coords': dict{}, builtins.str:'attrs': dict{builtins.str:'product': "
            "builtins.str:'e42'}, builtins.str:'encoding': dict{}}, builtins.str:'/imagery': "
            "dict{builtins.str:'type': builtins.str:'Dataset', builtins.str:'sizes': dict{}, "
            "builtins.str:'data_vars': dict{}, builtins.str:'coords': dict{}, "
            "builtins.str:'attrs': dict{builtins.str:'kind': builtins.str:'imagery'}, "
            "builtins.str:'encoding': dict{}}, builtins.str:'/metadata': dict{builtins.str:'type': "
            "builtins.str:'Dataset', builtins.str:'sizes': dict{}, builtins.str:'data_vars': "
            "dict{}, builtins.str:'coords': dict{}, builtins.str:'attrs': dict{}, "
            "builtins.str:'encoding': dict{}}, builtins.str:'/imagery/HH': "
            "dict{builtins.str:'type': builtins.str:'Dataset', builtins.str:'sizes': "
            "dict{builtins.str:'rows': builtins.int:4, builtins.str:'cols': builtins.int:3}, "
            "builtins.str:'data_vars': dict{builtins.str:'data': dict{builtins.str:'dims': "
            "tuple(builtins.str:'rows', builtins.str:'cols'), builtins.str:'dtype': "
            "builtins.str:'uint16', builtins.str:'attrs': dict{builtins.str:'units': "
            "builtins.str:'dn'}, builtins.str:'encoding': "
            "dict{builtins.str:'preferred_chunksizes': dict{builtins.str:'rows': builtins.int:2, "
            "builtins.str:'cols': builtins.int:3}}, builtins.str:'data-type': "
            "builtins.str:'LazilyIndexedArray', builtins.str:'values': ndarray[<u2|(4, "
            "3)|0100040007000a000d0010001300160019001c001f002200]}}, builtins.str:'coords': "
            "dict{}, builtins.str:'attrs': dict{builtins.str:'pol': builtins.str:'HH'}, "
            "builtins.str:'encoding': dict{}}, builtins.str:'/imagery/HV': "
            "dict{builtins.str:'type': builtins.str:'Dataset', builtins.str:'sizes': "
            "dict{builtins.str:'rows': builtins.int:4, builtins.str:'cols': builtins.int:3, "
            "builtins.str:'x': builtins.int:3}, builtins.str:'data_vars': "
            "dict{builtins.str:'data': dict{builtins.str:'dims': tuple(builtins.str:'rows', "
            "builtins.str:'cols'), builtins.str:'dtype': builtins.str:'uint16', "
            "builtins.str:'attrs': dict{builtins.str:'units': builtins.str:'dn'}, "
            "builtins.str:'encoding': dict{builtins.str:'preferred_chunksizes': "
            "dict{builtins.str:'rows': builtins.int:2, builtins.str:'cols': builtins.int:3}}, "
            "builtins.str:'data-type': builtins.str:'LazilyIndexedArray', builtins.str:'values': "
            'ndarray[<u2|(4, 3)|0100040007000a000d0010001300160019001c001f002200]}}, '
            "builtins.str:'coords': dict{builtins.str:'c': dict{builtins.str:'dims': "
            "tuple(builtins.str:'x'), builtins.str:'dtype': builtins.str:'int8', "
            "builtins.str:'attrs': dict{builtins.str:'a': builtins.int:1}, "
            "builtins.str:'encoding': dict{}, builtins.str:'data-type': builtins.str:'ndarray', "
            "builtins.str:'values': ndarray[|i1|(3,)|010203]}}, builtins.str:'attrs': "
            "dict{builtins.str:'pol': builtins.str:'HV'}, builtins.str:'encoding': dict{}}, "
            "builtins.str:'/metadata/a': dict{builtins.str:'type': builtins.str:'Dataset', "
            "builtins.str:'sizes': dict{}, builtins.str:'data_vars': dict{}, "
            "builtins.str:'coords': dict{}, builtins.str:'attrs': dict{}, builtins.str:'encoding': "
            "dict{}}, builtins.str:'/metadata/a/b': dict{builtins.str:'type': "
            "builtins.str:'Dataset', builtins.str:'sizes': dict{}, builtins.str:'data_vars': "
            "dict{builtins.str:'s': dict{builtins.str:'dims': tuple(), builtins.str:'dtype': "
            "builtins.str:'int64', builtins.str:'attrs': dict{builtins.str:'scalar': "
            "builtins.bool:True}, builtins.str:'encoding': dict{}, builtins.str:'data-type': "
            "builtins.str:'ndarray', builtins.str:'values': ndarray[<i8|()|0700000000000000]}}, "
            "builtins.str:'coords': dict{}, builtins.str:'attrs': dict{builtins.str:'depth': "
            "builtins.int:3}, builtins.str:'encoding': dict{}}}}",
 'dataset-not-a-group': "raise builtins.AttributeError: 'dict' object has no attribute 'variables'",
 'tree-not-a-group': "raise builtins.AttributeError: 'NoneType' object has no attribute "
                     "'variables'",
 'tree-of-subgroup': "dict{builtins.str:'type': builtins.str:'DataTree', builtins.str:'name': "
                     "builtins.NoneType:None, builtins.str:'paths': list(builtins.str:'/', "
                     "builtins.str:'/imagery', builtins.str:'/imagery/HH', "
                     "builtins.str:'/imagery/HV'), builtins.str:'nodes': dict{builtins.str:'/': "
                     "dict{builtins.str:'type': builtins.str:'Dataset', builtins.str:'sizes': "
                     "dict{}, builtins.str:'data_vars': dict{}, builtins.str:'coords': dict{}, "
                     "builtins.str:'attrs': dict{builtins.str:'kind': builtins.str:'imagery'}, "
                     "builtins.str:'encoding': dict{}}, builtins.str:'/imagery': "
                     "dict{builtins.str:'type': builtins.str:'Dataset', builtins.str:'sizes': "
                     "dict{}, builtins.str:'data_vars': dict{}, builtins.str:'coords': dict{}, "
                     "builtins.str:'attrs': dict{builtins.str:'kind': builtins.str:'imagery'}, "
                     "builtins.str:'encoding': dict{}}, builtins.str:'/imagery/HH': "
                     "dict{builtins.str:'type': builtins.str:'Dataset', builtins.str:'sizes': "
                     "dict{builtins.str:'rows': builtins.int:4, builtins.str:'cols': "
                     "builtins.int:3}, builtins.str:'data_vars': dict{builtins.str:'data': "
                     "dict{builtins.str:'dims': tuple(builtins.str:'rows', builtins.str:'cols'), "
                     "builtins.str:'dtype': builtins.str:'uint16', builtins.str:'attrs': "
                     "dict{builtins.str:'units': builtins.str:'dn'}, builtins.str:'encoding': "
                     "dict{builtins.str:'preferred_chunksizes': dict{builtins.str:'rows': "
                     "builtins.int:2, builtins.str:'cols': builtins.int:3}}, "
                     "builtins.str:'data-type': builtins.str:'LazilyIndexedArray', "
                     "builtins.str:'values': ndarray[<u2|(4, "
                     '3)|0100040007000a000d0010001300160019001c001f002200]}}, '
                     "builtins.str:'coords': dict{}, builtins.str:'attrs': "
                     "dict{builtins.str:'pol': builtins.str:'HH'}, builtins.str:'encoding': "
                     "dict{}}, builtins.str:'/imagery/HV': dict{builtins.str:'type': "
                     "builtins.str:'Dataset', builtins.str:'sizes': dict{builtins.str:'rows': "
                     "builtins.int:4, builtins.str:'cols': builtins.int:3, builtins.str:'x': "
                     "builtins.int:3}, builtins.str:'data_vars': dict{builtins.str:'data': "
                     "dict{builtins.str:'dims': tuple(builtins.str:'rows', builtins.str:'cols'), "
                     "builtins.str:'dtype': builtins.str:'uint16', builtins.str:'attrs': "
                     "dict{builtins.str:'units': builtins.str:'dn'}, builtins.str:'encoding': "
                     "dict{builtins.str:'preferred_chunksizes': dict{builtins.str:'rows': "
                     "builtins.int:2, builtins.str:'cols': builtins.int:3}}, "
                     "builtins.str:'data-type': builtins.str:'LazilyIndexedArray', "
                     "builtins.str:'values': ndarray[<u2|(4, "
                     '3)|0100040007000a000d0010001300160019001c001f002200]}}, '
                     "builtins.str:'coords': dict{builtins.str:'c': dict{builtins.str:'dims': "
                     "tuple(builtins.str:'x'), builtins.str:'dtype': builtins.str:'int8', "
                     "builtins.str:'attrs': dict{builtins.str:'a': builtins.int:1}, "
                     "builtins.str:'encoding': dict{}, builtins.str:'data-type': "
                     "builtins.str:'ndarray', builtins.str:'values': ndarray[|i1|(3,)|010203]}}, "
                     "builtins.str:'attrs': dict{builtins.str:'pol': builtins.str:'HV'}, "
                     "builtins.str:'encoding': dict{}}}}",
 'dataset-of-subgroup': "dict{builtins.str:'type': builtins.str:'Dataset', builtins.str:'sizes': "
                        "dict{builtins.str:'rows': builtins.int:4, builtins.str:'cols': "
                        "builtins.int:3, builtins.str:'x': builtins.int:3}, "
                        "builtins.str:'data_vars': dict{builtins.str:'data': "
                        "dict{builtins.str:'dims': tuple(builtins.str:'rows', "
                        "builtins.str:'cols'), builtins.str:'dtype': builtins.str:'uint16', "
                        "builtins.str:'attrs': dict{builtins.str:'units': builtins.str:'dn'}, "
                        "builtins.str:'encoding': dict{builtins.str:'preferred_chunksizes': "
                        "dict{builtins.str:'rows': builtins.int:2, builtins.str:'cols': "
                        "builtins.int:3}}, builtins.str:'data-type': "
                        "builtins.str:'LazilyIndexedArray', builtins.str:'values': ndarray[<u2|(4, "
                        '3)|0100040007000a000d0010001300160019001c001f002200]}}, '
                        "builtins.str:'coords': dict{builtins.str:'c': dict{builtins.str:'dims': "
                        "tuple(builtins.str:'x'), builtins.str:'dtype': builtins.str:'int8', "
                        "builtins.str:'attrs': dict{builtins.str:'a': builtins.int:1}, "
                        "builtins.str:'encoding': dict{}, builtins.str:'data-type': "
                        "builtins.str:'ndarray', builtins.str:'values': "
                        "ndarray[|i1|(3,)|010203]}}, builtins.str:'attrs': "
                        "dict{builtins.str:'pol': builtins.str:'HV'}, builtins.str:'encoding': "
                        'dict{}}',
 'decode-none': "list(dict{builtins.str:'type': builtins.str:'Dataset', builtins.str:'sizes': "
                "dict{builtins.str:'x': builtins.int:3}, builtins.str:'data_vars': "
                "dict{builtins.str:'c': dict{builtins.str:'dims': tuple(builtins.str:'x'), "
                "builtins.str:'dtype': builtins.str:'int64', builtins.str:'attrs': dict{}, "
                "builtins.str:'encoding': dict{}, builtins.str:'data-type': "
                "builtins.str:'ndarray', builtins.str:'values': "
                'ndarray[<i8|(3,)|000000000000000001000000000000000200000000000000]}, '
                "builtins.str:'d': dict{builtins.str:'dims': tuple(builtins.str:'x'), "
                "builtins.str:'dtype': builtins.str:'int64', builtins.str:'attrs': dict{}, "
                "builtins.str:'encoding': dict{}, builtins.str:'data-type': "
                "builtins.str:'ndarray', builtins.str:'values': "
                'ndarray[<i8|(3,)|010000000000000002000000000000000300000000000000]}}, '
                "builtins.str:'coords': dict{}, builtins.str:'attrs': dict{}, "
                "builtins.str:'encoding': dict{}}, dict{}, list(), builtins.bool:False)",
 'decode-list': "list(dict{builtins.str:'type': builtins.str:'Dataset', builtins.str:'sizes': "
                "dict{builtins.str:'x': builtins.int:3}, builtins.str:'data_vars': "
                "dict{builtins.str:'c': dict{builtins.str:'dims': tuple(builtins.str:'x'), "
                "builtins.str:'dtype': builtins.str:'int64', builtins.str:'attrs': dict{}, "
                "builtins.str:'encoding': dict{}, builtins.str:'data-type': "
                "builtins.str:'ndarray', builtins.str:'values': "
                'ndarray[<i8|(3,)|000000000000000001000000000000000200000000000000]}}, '
                "builtins.str:'coords': dict{builtins.str:'d': dict{builtins.str:'dims': "
                "tuple(builtins.str:'x'), builtins.str:'dtype': builtins.str:'int64', "
                "builtins.str:'attrs': dict{}, builtins.str:'encoding': dict{}, "
                "builtins.str:'data-type': builtins.str:'ndarray', builtins.str:'values': "
                'ndarray[<i8|(3,)|010000000000000002000000000000000300000000000000]}}, '
                "builtins.str:'attrs': dict{builtins.str:'keep': builtins.int:1}, "
                "builtins.str:'encoding': dict{}}, dict{builtins.str:'keep': builtins.int:1}, "
                'list(), builtins.bool:False)',
 'decode-both': "list(dict{builtins.str:'type': builtins.str:'Dataset', builtins.str:'sizes': "
                "dict{builtins.str:'x': builtins.int:3}, builtins.str:'data_vars': dict{}, "
                "builtins.str:'coords': dict{builtins.str:'c': dict{builtins.str:'dims': "
                "tuple(builtins.str:'x'), builtins.str:'dtype': builtins.str:'int64', "
                "builtins.str:'attrs': dict{}, builtins.str:'encoding': dict{}, "
                "builtins.str:'data-type': builtins.str:'ndarray', builtins.str:'values': "
                'ndarray[<i8|(3,)|000000000000000001000000000000000200000000000000]}, '
                "builtins.str:'d': dict{builtins.str:'dims': tuple(builtins.str:'x'), "
                "builtins.str:'dtype': builtins.str:'int64', builtins.str:'attrs': dict{}, "
                "builtins.str:'encoding': dict{}, builtins.str:'data-type': "
                "builtins.str:'ndarray', builtins.str:'values': "
                'ndarray[<i8|(3,)|010000000000000002000000000000000300000000000000]}}, '
                "builtins.str:'attrs': dict{}, builtins.str:'encoding': dict{}}, dict{}, list(), "
                'builtins.bool:False)',
 'decode-str': "list(dict{builtins.str:'type': builtins.str:'Dataset', builtins.str:'sizes': "
               "dict{builtins.str:'x': builtins.int:3}, builtins.str:'data_vars': "
               "dict{builtins.str:'d': dict{builtins.str:'dims': tuple(builtins.str:'x'), "
               "builtins.str:'dtype': builtins.str:'int64', builtins.str:'attrs': dict{}, "
               "builtins.str:'encoding': dict{}, builtins.str:'data-type': builtins.str:'ndarray', "
               "builtins.str:'values': "
               'ndarray[<i8|(3,)|010000000000000002000000000000000300000000000000]}}, '
               "builtins.str:'coords': dict{builtins.str:'c': dict{builtins.str:'dims': "
               "tuple(builtins.str:'x'), builtins.str:'dtype': builtins.str:'int64', "
               "builtins.str:'attrs': dict{}, builtins.str:'encoding': dict{}, "
               "builtins.str:'data-type': builtins.str:'ndarray', builtins.str:'values': "
               'ndarray[<i8|(3,)|000000000000000001000000000000000200000000000000]}}, '
               "builtins.str:'attrs': dict{}, builtins.str:'encoding': dict{}}, dict{}, list(), "
               'builtins.bool:False)',
 'decode-empty': "list(dict{builtins.str:'type': builtins.str:'Dataset', builtins.str:'sizes': "
                 "dict{builtins.str:'x': builtins.int:3}, builtins.str:'data_vars': "
                 "dict{builtins.str:'c': dict{builtins.str:'dims': tuple(builtins.str:'x'), "
                 "builtins.str:'dtype': builtins.str:'int64', builtins.str:'attrs': dict{}, "
                 "builtins.str:'encoding': dict{}, builtins.str:'data-type': "
                 "builtins.str:'ndarray', builtins.str:'values': "
                 'ndarray[<i8|(3,)|000000000000000001000000000000000200000000000000]}, '
                 "builtins.str:'d': dict{builtins.str:'dims': tuple(builtins.str:'x'), "
                 "builtins.str:'dtype': builtins.str:'int64', builtins.str:'attrs': dict{}, "
                 "builtins.str:'encoding': dict{}, builtins.str:'data-type': "
                 "builtins.str:'ndarray', builtins.str:'values': "
                 'ndarray[<i8|(3,)|010000000000000002000000000000000300000000000000]}}, '
                 "builtins.str:'coords': dict{}, builtins.str:'attrs': dict{}, "
                 "builtins.str:'encoding': dict{}}, dict{}, list(), builtins.bool:False)",
 'decode-missing': 'raise builtins.ValueError: These variables cannot be found in this dataset: '
                   "['q']",
 'decode-none-value': 'raise builtins.ValueError: These variables cannot be found in this dataset: '
                      '[None]',
 'decode-int': 'raise builtins.ValueError: These variables cannot be found in this dataset: [3]',
 'decode-other-key': "list(dict{builtins.str:'type': builtins.str:'Dataset', builtins.str:'sizes': "
                     "dict{builtins.str:'x': builtins.int:3}, builtins.str:'data_vars': "
                     "dict{builtins.str:'c': dict{builtins.str:'dims': tuple(builtins.str:'x'), "
                     "builtins.str:'dtype': builtins.str:'int64', builtins.str:'attrs': dict{}, "
                     "builtins.str:'encoding': dict{}, builtins.str:'data-type': "
                     "builtins.str:'ndarray', builtins.str:'values': "
                     'ndarray[<i8|(3,)|000000000000000001000000000000000200000000000000]}, '
                     "builtins.str:'d': dict{builtins.str:'dims': tuple(builtins.str:'x'), "
                     "builtins.str:'dtype': builtins.str:'int64', builtins.str:'attrs': dict{}, "
                     "builtins.str:'encoding': dict{}, builtins.str:'data-type': "
                     "builtins.str:'ndarray', builtins.str:'values': "
                     'ndarray[<i8|(3,)|010000000000000002000000000000000300000000000000]}}, '
                     "builtins.str:'coords': dict{}, builtins.str:'attrs': "
                     "dict{builtins.str:'Coordinates': list(builtins.str:'c')}, "
                     "builtins.str:'encoding': dict{}}, dict{builtins.str:'Coordinates': "
                     "list(builtins.str:'c')}, list(), builtins.bool:False)",
 'decode-kw': "dict{builtins.str:'type': builtins.str:'Dataset', builtins.str:'sizes': "
              "dict{builtins.str:'x': builtins.int:2}, builtins.str:'data_vars': dict{}, "
              "builtins.str:'coords': dict{builtins.str:'a': dict{builtins.str:'dims': "
              "tuple(builtins.str:'x'), builtins.str:'dtype': builtins.str:'int64', "
              "builtins.str:'attrs': dict{}, builtins.str:'encoding': dict{}, "
              "builtins.str:'data-type': builtins.str:'ndarray', builtins.str:'values': "
              "ndarray[<i8|(2,)|01000000000000000200000000000000]}}, builtins.str:'attrs': dict{}, "
              "builtins.str:'encoding': dict{}}",
 'decode-not-a-dataset': "raise builtins.AttributeError: 'dict' object has no attribute 'attrs'"}


# --------------------------------------------------------------------------
# harness: canonical description of results, comparison against EXPECTED
# --------------------------------------------------------------------------
import sys
import warnings


def describe(value):
    """canonical, type-aware text form of a result"""
    import numpy as _np

    if isinstance(value, BaseException):
        return f"raise {type(value).__module__}.{type(value).__qualname__}: {value}"
    if isinstance(value, _np.ndarray):
        if value.dtype == object:
            body = repr(value.tolist())
        else:
            body = value.tobytes().hex()
        return f"ndarray[{value.dtype.str}|{value.shape}|{body}]"
    if isinstance(value, _np.generic):
        return f"{type(value).__module__}.{type(value).__name__}({value!r})"
    if isinstance(value, dict):
        items = ", ".join(f"{describe(k)}: {describe(v)}" for k, v in value.items())
        return f"{type(value).__name__}{{{items}}}"
    if isinstance(value, (list, tuple)):
        items = ", ".join(describe(v) for v in value)
        return f"{type(value).__name__}({items})"
    return f"{type(value).__module__}.{type(value).__qualname__}:{value!r}"


def run_case(thunk):
    with warnings.catch_warnings():
        warnings.simplefilter("ignore")
        try:
            return describe(thunk())
        except Exception as e:  # noqa: BLE001
            return describe(e)


def collect():
    results = {}
    for name, thunk in cases():
        if name in results:
            raise RuntimeError(f"duplicate case name: {name}")
        results[name] = run_case(thunk)
    return results


def main(argv):
    results = collect()
    if "--record" in argv:
        import pprint

        pprint.pprint(results, width=100, sort_dicts=False)
        return 0

    failures = []
    for name, actual in results.items():
        expected = EXPECTED.get(name, "<missing>")
        if actual != expected:
            failures.append((name, expected, actual))
    missing = sorted(set(EXPECTED) - set(results))
    for name, expected, actual in failures:
        print(f"MISMATCH {name}\n  expected: {expected}\n  actual:   {actual}")
    for name in missing:
        print(f"NOT RUN {name}")
    n_raise = sum(1 for v in results.values() if v.startswith("raise "))
    print(f"{len(results)} cases ({n_raise} raising), {len(failures)} mismatches, {len(missing)} not run")
    return 1 if failures or missing else 0


def test_equivalence():
    assert main([]) == 0


if __name__ == "__main__":
    sys.exit(main(sys.argv[1:]))
