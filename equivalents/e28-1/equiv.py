"""Equivalence check for refactoring 1 (volume_directory/metadata.py:
transform_volume_descriptor / transform_text).

Run as a script (`python equiv.py`) or through pytest.  `python equiv.py --record`
prints the outcomes computed by the code that is currently importable; the
EXPECTED table below was recorded that way from the UNCHANGED code (HEAD).
"""

import collections
import copy
import json
import struct
import sys
import types

import fsspec

from ceos_alos2.hierarchy import Group, Variable
from ceos_alos2.volume_directory import io, metadata


# --------------------------------------------------------------------------- harness
def canon(obj):
    """Type- and order-preserving rendering of a result."""
    if isinstance(obj, Group):
        return (
            f"Group(path={canon(obj.path)}, url={canon(obj.url)},"
            f" data={canon(obj.data)}, attrs={canon(obj.attrs)})"
        )
    if isinstance(obj, Variable):
        return f"Variable({canon(obj.dims)}, {canon(obj.data)}, {canon(obj.attrs)})"
    if isinstance(obj, dict):
        items = ", ".join(f"{canon(k)}: {canon(v)}" for k, v in obj.items())
        return f"{type(obj).__name__}{{{items}}}"
    if isinstance(obj, (list, tuple)):
        items = ", ".join(canon(v) for v in obj)
        return f"{type(obj).__name__}[{items}]"
    return f"{type(obj).__name__}:{obj!r}"


def outcome(func, *args):
    try:
        args_before = copy.deepcopy(args)
    except TypeError:  # e.g. mappingproxy
        args_before = args = tuple(args)
    try:
        result = func(*args)
    except Exception as e:  # noqa: BLE001
        cause = type(e.__cause__).__name__ if e.__cause__ is not None else None
        rendered = f"EXC {type(e).__name__}: {e} (cause: {cause})"
    else:
        rendered = "OK " + canon(result)
    mutated = canon(args_before) != canon(args)
    return rendered + (" [INPUT MUTATED]" if mutated else "")


# --------------------------------------------------------------------------- byte synthesis
def preamble(seq, length=360):
    return struct.pack(">IBBBBI", seq, 192, 192, 18, 18, length)


def field(value, width):
    if isinstance(value, int):
        text = str(value).rjust(width)
    else:
        text = str(value).ljust(width)
    assert len(text) == width, (value, width)
    return text.encode("ascii")


def volume_descriptor_bytes(n_files, creation="2020101117233798"):
    parts = [
        preamble(1),
        field("A", 2),
        field("", 2),
        field("CEOS-SAR", 12),
        field("A", 2),
        field("A", 2),
        field("001.001", 12),
        field("PHYS-0001", 16),
        field("LOGI-0001", 16),
        field("VOLSET-01", 16),
        field(1, 2),
        field(1, 2),
        field(1, 2),
        field(1, 2),
        field(2, 4),
        field(3, 4),
        field(4, 4),
        field(creation, 16),
        field("JAPAN", 12),
        field("JAXA", 8),
        field("EICS", 12),
        field(n_files, 4),
        field(1, 4),
        field("", 92),
        field("local", 100),
    ]
    data = b"".join(parts)
    assert len(data) == 360
    return data


def file_descriptor_bytes(number):
    parts = [
        preamble(1 + number),
        field("A", 2),
        field("", 2),
        field(number, 4),
        field(f"FILE-{number}", 16),
        field("SARLEADER FILE", 28),
        field("SARL", 4),
        field("MIXED BINARY AND ASCII", 28),
        field("MBAA", 4),
        field(10 + number, 8),
        field(720, 8),
        field(9000, 8),
        field("VARIABLE LEN", 12),
        field("VARE", 4),
        field(1, 2),
        field(1, 2),
        field(1, 8),
        field(10 + number, 8),
        field("", 100),
        field("", 100),
    ]
    data = b"".join(parts)
    assert len(data) == 360
    return data


def text_record_bytes(seq):
    parts = [
        preamble(seq),
        field("A", 2),
        field("", 2),
        field("PRODUCT:WWDR1.5RUA", 40),
        field("PROCESS:JAPAN-JAXA-EICS  20201011 172337", 60),
        field("TAPE-ID", 40),
        field("ORBIT:ALOS2123456789-201011", 40),
        field("SCENE-LOCATION", 40),
        field("", 124),
    ]
    data = b"".join(parts)
    assert len(data) == 360
    return data


def volume_directory_bytes(n_files, **kwargs):
    return (
        volume_descriptor_bytes(n_files, **kwargs)
        + b"".join(file_descriptor_bytes(i + 1) for i in range(n_files))
        + text_record_bytes(n_files + 2)
    )


# --------------------------------------------------------------------------- cases
FULL_DESCRIPTOR = io.parse_data(volume_directory_bytes(2))["volume_descriptor"]
FULL_TEXT = io.parse_data(volume_directory_bytes(2))["text_record"]

DESCRIPTOR_INPUTS = {
    "empty": {},
    "parsed": FULL_DESCRIPTOR,
    "only-ignored": {
        "preamble": {"a": 1},
        "ascii_ebcdic_flag": "A",
        "blanks": "",
        "spare": "",
        "local_use_segment": "",
        "total_number_of_physical_volumes_in_logical_volume": 1,
        "physical_volume_sequence_number_of_the_first_tape": 1,
        "physical_volume_sequence_number_of_the_last_tape": 1,
        "physical_volume_sequence_number_of_the_current_tape": 1,
        "file_number_in_the_logical_volume": 2,
        "logical_volume_within_a_volume_set": "a",
        "logical_volume_number_within_physical_volume": 4,
        "number_of_file_pointer_records": 4,
        "number_of_text_records_in_volume_directory": 1,
    },
    "unknown-keys-keep-order": {"z": 1, "spare": 0, "a": [1, 2], "m": {"n": None}, "blanks1": ""},
    "all-translations-reversed": {
        "logical_volume_generating_facility": "f",
        "logical_volume_generating_agency": "e",
        "logical_volume_generation_country": "d",
        "software_release_and_revision_level": "c",
        "superstructure_record_format_revision_level": "b",
        "superstructure_format_control_document_revision_level": "a",
        "superstructure_format_control_document_id": "0",
    },
    "datetime-translated": {"logical_volume_creation_datetime": "2020101117233798"},
    "datetime-already-translated": {"creation_datetime": "2020101117233798"},
    "datetime-collision-1": {
        "logical_volume_creation_datetime": "2020101117233798",
        "x": 1,
        "creation_datetime": "1999123123595999",
    },
    "datetime-collision-2": {
        "creation_datetime": "1999123123595999",
        "x": 1,
        "logical_volume_creation_datetime": "2020101117233798",
    },
    "translated-name-collision": {"software_version": "new", "software_release_and_revision_level": "old"},
    "datetime-invalid": {"a": 1, "logical_volume_creation_datetime": "not a date"},
    "datetime-empty": {"logical_volume_creation_datetime": ""},
    "datetime-int": {"logical_volume_creation_datetime": 2020101117233798},
    "datetime-none": {"creation_datetime": None},
    "datetime-short": {"creation_datetime": "20201011172337"},
    "non-string-keys": {1: "a", None: "b", (1, 2): "c", "preamble": "d", 2.5: "e"},
    "values-that-look-like-keys": {"a": "preamble", "b": "creation_datetime"},
    "ordered-dict": collections.OrderedDict(
        [("logical_volume_id", "x"), ("spare", ""), ("logical_volume_generating_agency", "y")]
    ),
    "mapping-proxy": types.MappingProxyType({"preamble": 1, "volume_set_id": "v"}),
    "none": None,
    "list": [("a", 1)],
    "string": "preamble",
    "int": 3,
}

TEXT_INPUTS = {
    "empty": {},
    "parsed": FULL_TEXT,
    "only-ignored": {"preamble": {}, "ascii_ebcdic_flag": "a", "blanks": "", "physical_tape_id": 1},
    "ignored-and-kept": {"blanks": "", "product_id": "PRODUCT:WWDR1.5RUA"},
    "translation": {"product_id": "b", "location_and_datetime_of_product_creation": "a"},
    "translation-collision-1": {"product_creation": "new", "location_and_datetime_of_product_creation": "old"},
    "translation-collision-2": {"location_and_datetime_of_product_creation": "old", "s": 1, "product_creation": "new"},
    "not-ignored-here": {"spare": 1, "local_use_segment": 2, "blanks1": 3, "creation_datetime": "x"},
    "volume-descriptor-translations-not-applied": {"logical_volume_creation_datetime": "2020101117233798"},
    "non-string-keys": {1: "a", None: "b", (1, 2): "c", "preamble": "d"},
    "ordered-dict": collections.OrderedDict([("scene_id", "x"), ("blanks", ""), ("product_id", "y")]),
    "none": None,
    "list": ["preamble"],
    "int": 0,
}


def open_from_memory(data, path="VOL-TEST"):
    fs = fsspec.filesystem("memory")
    root = "/equiv1"
    if fs.exists(root):
        fs.rm(root, recursive=True)
    fs.mkdirs(root, exist_ok=True)
    if data is not None:
        fs.pipe_file(f"{root}/{path}", data)
    mapper = fs.get_mapper(root)
    return io.open_volume_directory(mapper, path)


def cases():
    for name, mapping in DESCRIPTOR_INPUTS.items():
        yield f"descriptor/{name}", (metadata.transform_volume_descriptor, mapping)
    for name, mapping in TEXT_INPUTS.items():
        yield f"text/{name}", (metadata.transform_text, mapping)

    yield "descriptor/keyword", (lambda m: metadata.transform_volume_descriptor(mapping=m), {"spare": 1, "x": 2})
    yield "text/keyword", (lambda m: metadata.transform_text(mapping=m), {"blanks": 1, "x": 2})
    yield "descriptor/no-args", (lambda: metadata.transform_volume_descriptor(),)
    yield "text/no-args", (lambda: metadata.transform_text(),)
    yield "descriptor/two-args", (lambda: metadata.transform_volume_descriptor({}, {}),)
    yield "text/two-args", (lambda: metadata.transform_text({}, {}),)

    # through the callers
    yield "record/parsed-0", (metadata.transform_record, io.parse_data(volume_directory_bytes(0)))
    yield "record/parsed-3", (metadata.transform_record, io.parse_data(volume_directory_bytes(3)))
    yield "record/bad-datetime", (
        metadata.transform_record,
        io.parse_data(volume_directory_bytes(1, creation="2020-10-11")),
    )
    yield "open/0-files", (open_from_memory, volume_directory_bytes(0))
    yield "open/2-files", (open_from_memory, volume_directory_bytes(2))
    yield "open/blank-datetime", (open_from_memory, volume_directory_bytes(1, creation=""))
    yield "open/missing", (open_from_memory, None)


# Recorded from the unchanged code (git HEAD) with `python equiv.py --record`.
EXPECTED = json.loads(r"""
{
 "descriptor/empty": "OK dict{}",
 "descriptor/parsed": "OK dict{str:'control_document_id': str:'CEOS-SAR', str:'control_document_revision_level': str:'A', str:'record_format_revision_level': str:'A', str:'software_version': str:'001.001', str:'physical_volume_id': str:'PHYS-0001', str:'logical_volume_id': str:'LOGI-0001', str:'volume_set_id': str:'VOLSET-01', str:'creation_datetime': str:'2020-10-11T17:23:37.980000', str:'creation_country': str:'JAPAN', str:'creation_agency': str:'JAXA', str:'creation_facility': str:'EICS'}",
 "descriptor/only-ignored": "OK dict{}",
 "descriptor/unknown-keys-keep-order": "OK dict{str:'z': int:1, str:'a': list[int:1, int:2], str:'m': dict{str:'n': NoneType:None}, str:'blanks1': str:''}",
 "descriptor/all-translations-reversed": "OK dict{str:'creation_facility': str:'f', str:'creation_agency': str:'e', str:'creation_country': str:'d', str:'software_version': str:'c', str:'record_format_revision_level': str:'b', str:'control_document_revision_level': str:'a', str:'control_document_id': str:'0'}",
 "descriptor/datetime-translated": "OK dict{str:'creation_datetime': str:'2020-10-11T17:23:37.980000'}",
 "descriptor/datetime-already-translated": "OK dict{str:'creation_datetime': str:'2020-10-11T17:23:37.980000'}",
 "descriptor/datetime-collision-1": "OK dict{str:'creation_datetime': str:'1999-12-31T23:59:59.990000', str:'x': int:1}",
 "descriptor/datetime-collision-2": "OK dict{str:'creation_datetime': str:'2020-10-11T17:23:37.980000', str:'x': int:1}",
 "descriptor/translated-name-collision": "OK dict{str:'software_version': str:'old'}",
 "descriptor/datetime-invalid": "EXC ValueError: time data 'not a date' does not match format '%Y%m%d%H%M%S%f' (cause: None)",
 "descriptor/datetime-empty": "EXC ValueError: time data '' does not match format '%Y%m%d%H%M%S%f' (cause: None)",
 "descriptor/datetime-int": "EXC TypeError: strptime() argument 1 must be str, not int (cause: None)",
 "descriptor/datetime-none": "EXC TypeError: strptime() argument 1 must be str, not None (cause: None)",
 "descriptor/datetime-short": "OK dict{str:'creation_datetime': str:'2020-10-11T17:23:03.700000'}",
 "descriptor/non-string-keys": "OK dict{int:1: str:'a', NoneType:None: str:'b', tuple[int:1, int:2]: str:'c', float:2.5: str:'e'}",
 "descriptor/values-that-look-like-keys": "OK dict{str:'a': str:'preamble', str:'b': str:'creation_datetime'}",
 "descriptor/ordered-dict": "OK dict{str:'logical_volume_id': str:'x', str:'creation_agency': str:'y'}",
 "descriptor/mapping-proxy": "OK dict{str:'volume_set_id': str:'v'}",
 "descriptor/none": "EXC AttributeError: 'NoneType' object has no attribute 'items' (cause: None)",
 "descriptor/list": "EXC AttributeError: 'list' object has no attribute 'items' (cause: None)",
 "descriptor/string": "EXC AttributeError: 'str' object has no attribute 'items' (cause: None)",
 "descriptor/int": "EXC AttributeError: 'int' object has no attribute 'items' (cause: None)",
 "text/empty": "OK dict{}",
 "text/parsed": "OK dict{str:'product_id': str:'PRODUCT:WWDR1.5RUA', str:'product_creation': str:'PROCESS:JAPAN-JAXA-EICS  20201011 172337', str:'scene_id': str:'ORBIT:ALOS2123456789-201011', str:'scene_location_id': str:'SCENE-LOCATION'}",
 "text/only-ignored": "OK dict{}",
 "text/ignored-and-kept": "OK dict{str:'product_id': str:'PRODUCT:WWDR1.5RUA'}",
 "text/translation": "OK dict{str:'product_id': str:'b', str:'product_creation': str:'a'}",
 "text/translation-collision-1": "OK dict{str:'product_creation': str:'old'}",
 "text/translation-collision-2": "OK dict{str:'product_creation': str:'new', str:'s': int:1}",
 "text/not-ignored-here": "OK dict{str:'spare': int:1, str:'local_use_segment': int:2, str:'blanks1': int:3, str:'creation_datetime': str:'x'}",
 "text/volume-descriptor-translations-not-applied": "OK dict{str:'logical_volume_creation_datetime': str:'2020101117233798'}",
 "text/non-string-keys": "OK dict{int:1: str:'a', NoneType:None: str:'b', tuple[int:1, int:2]: str:'c'}",
 "text/ordered-dict": "OK dict{str:'scene_id': str:'x', str:'product_id': str:'y'}",
 "text/none": "EXC AttributeError: 'NoneType' object has no attribute 'items' (cause: None)",
 "text/list": "EXC AttributeError: 'list' object has no attribute 'items' (cause: None)",
 "text/int": "EXC AttributeError: 'int' object has no attribute 'items' (cause: None)",
 "descriptor/keyword": "OK dict{str:'x': int:2}",
 "text/keyword": "OK dict{str:'x': int:2}",
 "descriptor/no-args": "EXC TypeError: transform_volume_descriptor() missing 1 required positional argument: 'mapping' (cause: None)",
 "text/no-args": "EXC TypeError: transform_text() missing 1 required positional argument: 'mapping' (cause: None)",
 "descriptor/two-args": "EXC TypeError: transform_volume_descriptor() takes 1 positional argument but 2 were given (cause: None)",
 "text/two-args": "EXC TypeError: transform_text() takes 1 positional argument but 2 were given (cause: None)",
 "record/parsed-0": "OK Group(path=str:'/', url=NoneType:None, data=dict{}, attrs=dict{str:'control_document_id': str:'CEOS-SAR', str:'control_document_revision_level': str:'A', str:'record_format_revision_level': str:'A', str:'software_version': str:'001.001', str:'physical_volume_id': str:'PHYS-0001', str:'logical_volume_id': str:'LOGI-0001', str:'volume_set_id': str:'VOLSET-01', str:'creation_datetime': str:'2020-10-11T17:23:37.980000', str:'creation_country': str:'JAPAN', str:'creation_agency': str:'JAXA', str:'creation_facility': str:'EICS', str:'product_id': str:'PRODUCT:WWDR1.5RUA', str:'product_creation': str:'PROCESS:JAPAN-JAXA-EICS  20201011 172337', str:'scene_id': str:'ORBIT:ALOS2123456789-201011', str:'scene_location_id': str:'SCENE-LOCATION'})",
 "record/parsed-3": "OK Group(path=str:'/', url=NoneType:None, data=dict{}, attrs=dict{str:'control_document_id': str:'CEOS-SAR', str:'control_document_revision_level': str:'A', str:'record_format_revision_level': str:'A', str:'software_version': str:'001.001', str:'physical_volume_id': str:'PHYS-0001', str:'logical_volume_id': str:'LOGI-0001', str:'volume_set_id': str:'VOLSET-01', str:'creation_datetime': str:'2020-10-11T17:23:37.980000', str:'creation_country': str:'JAPAN', str:'creation_agency': str:'JAXA', str:'creation_facility': str:'EICS', str:'product_id': str:'PRODUCT:WWDR1.5RUA', str:'product_creation': str:'PROCESS:JAPAN-JAXA-EICS  20201011 172337', str:'scene_id': str:'ORBIT:ALOS2123456789-201011', str:'scene_location_id': str:'SCENE-LOCATION'})",
 "record/bad-datetime": "EXC ValueError: time data '2020-10-11' does not match format '%Y%m%d%H%M%S%f' (cause: None)",
 "open/0-files": "OK Group(path=str:'/', url=NoneType:None, data=dict{}, attrs=dict{str:'control_document_id': str:'CEOS-SAR', str:'control_document_revision_level': str:'A', str:'record_format_revision_level': str:'A', str:'software_version': str:'001.001', str:'physical_volume_id': str:'PHYS-0001', str:'logical_volume_id': str:'LOGI-0001', str:'volume_set_id': str:'VOLSET-01', str:'creation_datetime': str:'2020-10-11T17:23:37.980000', str:'creation_country': str:'JAPAN', str:'creation_agency': str:'JAXA', str:'creation_facility': str:'EICS', str:'product_id': str:'PRODUCT:WWDR1.5RUA', str:'product_creation': str:'PROCESS:JAPAN-JAXA-EICS  20201011 172337', str:'scene_id': str:'ORBIT:ALOS2123456789-201011', str:'scene_location_id': str:'SCENE-LOCATION'})",
 "open/2-files": "OK Group(path=str:'/', url=NoneType:None, data=dict{}, attrs=dict{str:'control_document_id': str:'CEOS-SAR', str:'control_document_revision_level': str:'A', str:'record_format_revision_level': str:'A', str:'software_version': str:'001.001', str:'physical_volume_id': str:'PHYS-0001', str:'logical_volume_id': str:'LOGI-0001', str:'volume_set_id': str:'VOLSET-01', str:'creation_datetime': str:'2020-10-11T17:23:37.980000', str:'creation_country': str:'JAPAN', str:'creation_agency': str:'JAXA', str:'creation_facility': str:'EICS', str:'product_id': str:'PRODUCT:WWDR1.5RUA', str:'product_creation': str:'PROCESS:JAPAN-JAXA-EICS  20201011 172337', str:'scene_id': str:'ORBIT:ALOS2123456789-201011', str:'scene_location_id': str:'SCENE-LOCATION'})",
 "open/blank-datetime": "EXC ValueError: time data '' does not match format '%Y%m%d%H%M%S%f' (cause: None)",
 "open/missing": "EXC FileNotFoundError: Cannot open VOL-TEST (cause: KeyError)"
}
""")


def compute():
    return {name: outcome(*call) for name, call in cases()}


def test_same_case_ids():
    assert list(compute()) == list(EXPECTED)


def test_outcomes_match_recording():
    actual = compute()
    mismatches = {k: (actual[k], EXPECTED.get(k)) for k in actual if actual[k] != EXPECTED.get(k)}
    assert not mismatches, mismatches


def test_results_do_not_alias_module_state():
    # every call must hand out fresh containers
    first = metadata.transform_text({"product_id": "a"})
    first["injected"] = 1
    assert metadata.transform_text({"product_id": "a"}) == {"product_id": "a"}
    second = metadata.transform_volume_descriptor({"volume_set_id": "a"})
    second["injected"] = 1
    assert metadata.transform_volume_descriptor({"volume_set_id": "a"}) == {"volume_set_id": "a"}


if __name__ == "__main__":
    if "--record" in sys.argv:
        print(json.dumps(compute(), indent=1, ensure_ascii=True))
        sys.exit(0)

    test_same_case_ids()
    test_outcomes_match_recording()
    test_results_do_not_alias_module_state()
    print(f"equiv 1: {len(EXPECTED)} recorded outcomes reproduced")
